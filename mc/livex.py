"""E2 livex: handler-granularity schedule / fault / crash exploration of LIVE trading.
Real Flumine.run dispatch, real BetfairClient + betfairlightweight endpoint/resource classes, real
controls, Transaction, BetfairExecution, process_current_orders; the HTTP session is an exchange
double, the execution thread pool is a controlled pool (baton threads), the order stream is a real
betfairlightweight OrderBookCache fed by the double."""
import datetime as _dt
import json
import threading
import traceback

from . import core, simx

T0 = simx.T0


class _Killed(BaseException):
    """raised inside an abandoned execution thread (framework crashed)"""


# --------------------------------------------------------------------------------------
# exchange double


class Bet:
    __slots__ = ("bet_id", "ref", "sref", "market_id", "sel", "hc", "side", "price", "size", "pers", "ot", "liab", "sm", "sr", "sc", "sl", "sv", "avp", "status", "pd", "md", "cd", "ld")

    def key(self):
        return (self.bet_id, self.ref, self.market_id, self.sel, self.side, self.price, self.size, self.pers, self.ot, self.sm, self.sr, self.sc, self.sl, self.sv, self.status)


class Exchange:
    """Bet table + documented placeOrders/cancelOrders/updateOrders/replaceOrders semantics."""

    def __init__(self, world):
        self.world = world
        self.bets = {}  # bet_id -> Bet
        self.next_id = 1000
        self.calls = []  # log of API calls: dict(method, n_instructions, answered, fault, reports)
        self.pending_async = []  # bets accepted asynchronously (created by EX_accept)
        self.dedupe = {}  # customerRef -> result of the placeOrders call already applied
        self.caches = {}  # market_id -> OrderBookCache
        self.snap_queue = []  # [(market_id, CurrentOrders resource)]
        self.last_snap = {}
        self.pt = T0

    # -- helpers
    def now_ms(self):
        return int(self.world.now_ms())

    def _iso(self):
        return simx.iso(self.now_ms())

    def new_bet(self, market_id, ins, sref, size=None, price=None, ref=None):
        b = Bet()
        self.next_id += 1
        b.bet_id = str(self.next_id)
        b.ref = ref if ref is not None else ins.get("customerOrderRef")
        b.sref = sref
        b.market_id = market_id
        b.sel = ins["selectionId"]
        b.hc = ins.get("handicap") or 0
        b.side = ins["side"]
        b.ot = {"LIMIT": "L", "LIMIT_ON_CLOSE": "LOC", "MARKET_ON_CLOSE": "MOC"}[ins["orderType"]]
        lo = ins.get("limitOrder") or {}
        b.price = price if price is not None else (lo.get("price") or (ins.get("limitOnCloseOrder") or {}).get("price") or 0)
        b.size = size if size is not None else (lo.get("size") or 0)
        b.pers = lo.get("persistenceType") or "LAPSE"
        b.liab = (ins.get("limitOnCloseOrder") or ins.get("marketOnCloseOrder") or {}).get("liability")
        b.sm = 0.0
        b.sr = float(b.size) if b.ot == "L" else 0.0
        b.sc = b.sl = b.sv = 0.0
        b.avp = 0.0
        b.status = "E"
        b.pd = self.now_ms()
        b.md = b.cd = b.ld = None
        self.bets[b.bet_id] = b
        return b

    # -- order stream rendering
    def _uo(self, b):
        d = {
            "id": b.bet_id,
            "p": b.price,
            "s": b.size if b.ot == "L" else 0,
            "side": "B" if b.side == "BACK" else "L",
            "status": b.status,
            "pt": {"LAPSE": "L", "PERSIST": "P", "MARKET_ON_CLOSE": "MOC"}[b.pers],
            "ot": b.ot,
            "pd": b.pd,
            "sm": b.sm,
            "sr": b.sr,
            "sl": b.sl,
            "sc": b.sc,
            "sv": b.sv,
            "rfo": b.ref,
            "rfs": b.sref,
            "avp": b.avp,
        }
        if b.liab is not None:
            d["bsp"] = b.liab
        if b.md:
            d["md"] = b.md
        if b.cd:
            d["cd"] = b.cd
        if b.ld:
            d["ld"] = b.ld
        return d

    def publish(self, market_id, changed, fresh=False, executable_only=False):
        """Feed the market's order changes to a real OrderBookCache and queue the resulting full image."""
        from betfairlightweight.streaming.cache import OrderBookCache

        self.pt += 1
        cache = self.caches.get(market_id)
        if cache is None or fresh:
            cache = self.caches[market_id] = OrderBookCache(market_id, self.pt, False)
            changed = [b for b in self.bets.values() if b.market_id == market_id and (not executable_only or b.status == "E")]
        refs = getattr(self.world, "subscribed_refs", None)
        if refs is not None:
            # the order stream only carries bets tagged with a subscribed customerStrategyRef
            changed = [b for b in changed if b.sref in refs]
        orc = {}
        for b in changed:
            e = orc.setdefault((b.sel, b.hc), {"id": b.sel, "uo": []})
            if b.hc:
                e["hc"] = b.hc
            e["uo"].append(self._uo(b))
        if fresh:
            for e in orc.values():
                e["fullImage"] = True
        cache.update_cache({"id": market_id, "orc": list(orc.values())}, self.pt)
        res = cache.create_resource(self.world.order_stream_id, snap=False)
        self.snap_queue.append((market_id, res))

    # -- API
    def handle(self, method, params, fault):
        """Apply one API request; returns the JSON-RPC result dict. `fault` drives the per-instruction outcome."""
        m = method.split("/")[-1]
        market_id = params.get("marketId")
        ins = params.get("instructions") or []
        call = dict(method=m, n=len(ins), fault=fault, market_id=market_id, reports=[], answered=False)
        self.calls.append(call)
        per = (fault or {}).get("per") or []
        changed = []
        reports = []
        if m == "listClearedOrders":
            # settled bets of the market / one summary per market (groupBy=MARKET); the double reports a summary
            # for every market asked for (as if the account had settled bets there under the strategy ref)
            mids = params.get("marketIds") or []
            if params.get("groupBy") == "MARKET":
                rows = [{"marketId": x, "profit": 0.0, "commission": 0.0, "betCount": 1, "customerStrategyRef": (params.get("customerStrategyRefs") or [None])[0]} for x in mids]
            else:
                rows = [{"marketId": b.market_id, "betId": b.bet_id, "sizeSettled": b.sm, "profit": 0.0, "customerOrderRef": b.ref, "customerStrategyRef": b.sref, "selectionId": b.sel, "side": b.side} for b in self.bets.values() if b.market_id in mids and b.sm > 0]
            call["reports"] = rows
            return {"clearedOrders": rows, "moreAvailable": False}
        if m == "placeOrders" and params.get("customerRef") in self.dedupe:
            # documented de-dupe of a re-submission with the same customerRef: nothing is placed again
            call["dedupe"] = True
            call["reports"] = self.dedupe[params.get("customerRef")]["instructionReports"]
            return self.dedupe[params.get("customerRef")]
        if m == "placeOrders":
            is_async = bool(params.get("async"))
            for i, x in enumerate(ins):
                f = per[i] if i < len(per) else "SUCCESS"
                rep = {"instruction": x}
                if f == "SUCCESS":
                    if is_async:
                        self.pending_async.append((market_id, x, params.get("customerStrategyRef")))
                        rep.update(status="SUCCESS", orderStatus="PENDING")
                    else:
                        b = self.new_bet(market_id, x, params.get("customerStrategyRef"))
                        changed.append(b)
                        rep.update(status="SUCCESS", betId=b.bet_id, placedDate=self._iso(), averagePriceMatched=0.0, sizeMatched=0.0, orderStatus="EXECUTABLE")
                elif f in ("TIMEOUT", "TIMEOUT_APPLIED"):
                    if f == "TIMEOUT_APPLIED":
                        b = self.new_bet(market_id, x, params.get("customerStrategyRef"))
                        changed.append(b)
                    rep.update(status="TIMEOUT")
                else:
                    rep.update(status="FAILURE", errorCode=f.split(":")[-1])
                reports.append(rep)
        elif m == "cancelOrders":
            for i, x in enumerate(ins):
                f = per[i] if i < len(per) else "SUCCESS"
                b = self.bets.get(str(x.get("betId")))
                rep = {"instruction": {"betId": x.get("betId"), "sizeReduction": x.get("sizeReduction")}}
                if f == "SUCCESS":
                    if b is None or b.status != "E" or b.sr <= 0:
                        rep.update(status="FAILURE", errorCode="BET_TAKEN_OR_LAPSED")
                    else:
                        red = x.get("sizeReduction")
                        c = min(red, b.sr) if red else b.sr
                        c = round(c, 2)
                        b.sc = round(b.sc + c, 2)
                        b.sr = round(b.sr - c, 2)
                        b.cd = self.now_ms()
                        if b.sr == 0:
                            b.status = "EC"
                        changed.append(b)
                        rep.update(status="SUCCESS", sizeCancelled=c, cancelledDate=self._iso())
                elif f in ("TIMEOUT", "TIMEOUT_APPLIED"):
                    if f == "TIMEOUT_APPLIED" and b is not None and b.status == "E":
                        b.sc = round(b.sc + b.sr, 2)
                        b.sr = 0.0
                        b.status = "EC"
                        changed.append(b)
                    rep.update(status="TIMEOUT")
                else:
                    rep.update(status="FAILURE", errorCode=f.split(":")[-1])
                reports.append(rep)
            perm = (fault or {}).get("cancel_order")
            if perm == "reversed":
                reports = list(reversed(reports))
            elif isinstance(perm, int) and 0 <= perm < len(reports):  # one report missing
                reports = reports[:perm] + reports[perm + 1 :]
        elif m == "updateOrders":
            for i, x in enumerate(ins):
                f = per[i] if i < len(per) else "SUCCESS"
                b = self.bets.get(str(x.get("betId")))
                rep = {"instruction": {"betId": x.get("betId"), "newPersistenceType": x.get("newPersistenceType")}}
                if f == "SUCCESS":
                    if b is None or b.status != "E":
                        rep.update(status="FAILURE", errorCode="BET_TAKEN_OR_LAPSED")
                    else:
                        b.pers = x.get("newPersistenceType")
                        changed.append(b)
                        rep.update(status="SUCCESS")
                elif f.startswith("TIMEOUT"):
                    rep.update(status="TIMEOUT")
                else:
                    rep.update(status="FAILURE", errorCode=f.split(":")[-1])
                reports.append(rep)
        elif m == "replaceOrders":
            for i, x in enumerate(ins):
                f = per[i] if i < len(per) else "SUCCESS"
                b = self.bets.get(str(x.get("betId")))
                crep = {"instruction": {"betId": x.get("betId")}}
                if f.startswith("SPLIT:"):
                    # the two halves of a replace report answered independently: "SPLIT:<cancel>:<place>"
                    _, cst, pst = f.split(":")[:3]
                    if cst == "SUCCESS" and b is not None and b.status == "E" and b.sr > 0:
                        c = b.sr
                        b.sc = round(b.sc + c, 2)
                        b.sr = 0.0
                        b.status = "EC"
                        b.cd = self.now_ms()
                        changed.append(b)
                        crep.update(status="SUCCESS", sizeCancelled=c, cancelledDate=self._iso())
                    elif cst == "SUCCESS":
                        cst = "FAILURE"
                        crep.update(status="FAILURE", errorCode="BET_TAKEN_OR_LAPSED")
                    elif cst == "TIMEOUT":
                        crep.update(status="TIMEOUT", errorCode=None)
                    else:
                        crep.update(status="FAILURE", errorCode="BET_TAKEN_OR_LAPSED")
                    pins = {"selectionId": b.sel if b else 0, "side": b.side if b else "BACK", "orderType": "LIMIT", "limitOrder": {"size": 0, "price": x.get("newPrice"), "persistenceType": "LAPSE"}}
                    prep = {"status": pst, "instruction": pins, "errorCode": None if pst == "TIMEOUT" else "RELATED_ACTION_FAILED"}
                    ost = "FAILURE" if "FAILURE" in (cst, pst) else "TIMEOUT"
                    reports.append({"status": ost, "errorCode": None if ost == "TIMEOUT" else "RELATED_ACTION_FAILED", "cancelInstructionReport": crep, "placeInstructionReport": prep})
                    continue
                if f == "SUCCESS" and b is not None and b.status == "E" and b.sr > 0:
                    c = b.sr
                    b.sc = round(b.sc + c, 2)
                    b.sr = 0.0
                    b.status = "EC"
                    b.cd = self.now_ms()
                    changed.append(b)
                    crep.update(status="SUCCESS", sizeCancelled=c, cancelledDate=self._iso())
                    pins = {
                        "selectionId": b.sel,
                        "side": b.side,
                        "orderType": "LIMIT",
                        "handicap": b.hc,
                        "customerOrderRef": b.ref,
                        "limitOrder": {"size": c, "price": x.get("newPrice"), "persistenceType": b.pers},
                    }
                    nb = self.new_bet(b.market_id, pins, b.sref)
                    changed.append(nb)
                    prep = {"status": "SUCCESS", "instruction": pins, "betId": nb.bet_id, "placedDate": self._iso(), "averagePriceMatched": 0.0, "sizeMatched": 0.0, "orderStatus": "EXECUTABLE"}
                    rep = {"status": "SUCCESS", "cancelInstructionReport": crep, "placeInstructionReport": prep}
                else:
                    code = "BET_TAKEN_OR_LAPSED" if f == "SUCCESS" else f.split(":")[-1]
                    st = "TIMEOUT" if f.startswith("TIMEOUT") else "FAILURE"
                    crep.update(status=st, errorCode=None if st == "TIMEOUT" else code)
                    pins = {"selectionId": b.sel if b else 0, "side": b.side if b else "BACK", "orderType": "LIMIT", "limitOrder": {"size": 0, "price": x.get("newPrice"), "persistenceType": "LAPSE"}}
                    prep = {"status": st, "instruction": pins, "errorCode": None if st == "TIMEOUT" else code}
                    rep = {"status": st, "errorCode": None if st == "TIMEOUT" else code, "cancelInstructionReport": crep, "placeInstructionReport": prep}
                reports.append(rep)
        else:
            raise core.HarnessError("exchange double: unknown method %s" % method)
        call["reports"] = reports
        statuses = [r["status"] for r in reports]
        overall = "SUCCESS" if all(s == "SUCCESS" for s in statuses) else ("FAILURE" if any(s == "FAILURE" for s in statuses) else ("TIMEOUT" if any(s == "TIMEOUT" for s in statuses) else "SUCCESS"))
        if changed:
            self.publish(market_id, changed)
        res = {"customerRef": params.get("customerRef"), "status": overall, "marketId": market_id, "instructionReports": reports}
        if m == "placeOrders" and params.get("customerRef"):
            self.dedupe[params.get("customerRef")] = res
        return res

    # -- autonomous exchange events
    def executable_bets(self):
        return [b for b in self.bets.values() if b.status == "E" and b.sr > 0]

    def fill(self, b, amt):
        amt = min(amt, b.sr)
        b.avp = b.price
        b.sm = round(b.sm + amt, 2)
        b.sr = round(b.sr - amt, 2)
        b.md = self.now_ms()
        if b.sr == 0:
            b.status = "EC"
        self.publish(b.market_id, [b])

    def lapse(self, b):
        b.sl = round(b.sl + b.sr, 2)
        b.sr = 0.0
        b.status = "EC"
        b.ld = self.now_ms()
        self.publish(b.market_id, [b])

    def accept_async(self, filled=False):
        """the exchange accepts an asynchronously placed bet; `filled`: it is matched in full at once, so its
        first order-stream update is also its last"""
        market_id, x, sref = self.pending_async.pop(0)
        b = self.new_bet(market_id, x, sref)
        if filled:
            b.avp = b.price
            b.sm, b.sr, b.status, b.md = b.sr, 0.0, "EC", self.now_ms()
        self.publish(market_id, [b])
        return b

    def table(self):
        """bet table with customer refs replaced by first-appearance indices (order ids are opaque)"""
        idx = {}
        rows = []
        for b in sorted(self.bets.values(), key=lambda b: int(b.bet_id)):
            r = idx.setdefault(b.ref, len(idx))
            k = b.key()
            rows.append(k[:1] + (r,) + k[2:])
        return tuple(rows)


# --------------------------------------------------------------------------------------
# controlled pool


class Task:
    def __init__(self, pool, func, args):
        self.pool = pool
        self.func = func
        self.args = args
        self.sem = threading.Semaphore(0)
        self.state = "new"  # new -> at_post -> (at_post ...) -> done
        self.kill = False
        self.error = None
        self.package = args[0] if args else None
        self.pending_response = None
        self.thread = threading.Thread(target=self._run, daemon=True)
        self.thread.start()

    def _run(self):
        self.sem.acquire()
        try:
            if not self.kill:
                self.pool.world.local.task = self
                self.func(*self.args)
        except _Killed:
            pass
        except BaseException as e:  # noqa
            self.error = traceback.format_exc()
        finally:
            self.state = "done"
            self.pool.main.release()

    def step(self):
        """let the task run until it blocks inside the exchange call or finishes"""
        self.sem.release()
        self.pool.main.acquire()


class _WQ:
    def qsize(self):
        return 0


class ControlledPool:
    def __init__(self, world):
        self.world = world
        self.tasks = []
        self.main = threading.Semaphore(0)
        self._threads = []
        self._work_queue = _WQ()

    def submit(self, func, *args):
        t = Task(self, func, args)
        self.tasks.append(t)
        return t

    def shutdown(self, wait=True):
        pass

    def outstanding(self):
        return [t for t in self.tasks if t.state != "done"]

    def abandon(self):
        for t in self.outstanding():
            t.kill = True
            t.step()


class FakeResponse:
    def __init__(self, status_code, body):
        self.status_code = status_code
        self.content = body.encode() if isinstance(body, str) else body
        self.text = body if isinstance(body, str) else body.decode()
        self.headers = {}

    def json(self):
        return json.loads(self.content)


class FakeSession:
    """Stands where requests.Session stands: BaseEndpoint.request() calls .post()."""

    def __init__(self, world):
        self.world = world
        self.time_created = 0
        self.time_returned = 0

    def post(self, url, data=None, headers=None, timeout=None):
        w = self.world
        task = getattr(w.local, "task", None)
        req = json.loads(data)
        k = len(w.exchange.calls) + w.transport_faults_seen
        fault = w.fault_plan.get(k) if w.fault_plan else None
        w.api_attempts.append((req["method"].split("/")[-1], id(task.package) if task else None))
        transport = (fault or {}).get("transport")
        result = None
        call = None
        if transport in ("before",):
            w.transport_faults_seen += 1
        else:
            result = w.exchange.handle(req["method"], req["params"], fault)
            call = w.exchange.calls[-1]  # several calls can be outstanding at once: keep our own record
        if task is not None:
            task.state = "at_post"
            task.pool.main.release()
            task.sem.acquire()
            if task.kill:
                raise _Killed()
        if transport:
            kind = (fault or {}).get("error", "APIError")
            if transport == "after" and call is not None:
                call["answered"] = False
            if kind == "StatusCodeError":
                return FakeResponse(500, "oops")
            if kind == "InvalidResponse":
                return FakeResponse(200, "<html>not json</html>")
            if kind == "APIErrorBody":
                return FakeResponse(200, json.dumps({"jsonrpc": "2.0", "error": {"code": -32099, "message": "ANGX-0001", "data": {"APINGException": {"errorCode": "TOO_MUCH_DATA"}}}, "id": 1}))
            import requests

            raise requests.ConnectionError("injected")
        call["answered"] = True
        return FakeResponse(200, json.dumps({"jsonrpc": "2.0", "result": result, "id": 1}))


# --------------------------------------------------------------------------------------
# live world


def make_live_classes():
    from flumine import Flumine, BaseStrategy

    class LiveFlumine(Flumine):
        def __enter__(self):
            from flumine import config

            config.simulated = False
            self._running = True

        def __exit__(self, *a):
            self._running = False

    class LiveScripted(BaseStrategy):
        def __init__(self, world, **kw):
            super().__init__(**kw)
            self.world = world
            self.known = []
            self.trades_known = []
            self.log = []
            self.orders_calls = 0
            self.next_action = None

        def check_market_book(self, market, market_book):
            return True

        def process_market_book(self, market, market_book):
            reg = self.world.framework.markets.markets.get(market.market_id)
            if reg is not market or market.market_book is not market_book:
                # the strategy must be handed THE market of the framework (the one holding its orders), with this book
                self.world.market_identity.append((self.name, market.market_id, reg is market, market.market_book is market_book))
            for o in market.blotter.strategy_orders(self):
                if not any(o is k for k in self.known):
                    self.known.append(o)
            act = self.next_action
            self.next_action = None
            if act is not None:
                self.do(act, market)

        def process_orders(self, market, orders):
            self.orders_calls += 1
            for o in orders:
                if not any(o is k for k in self.known):
                    self.known.append(o)
            cb = self.world.hooks_get("orders")
            if cb:
                self.world.safe(cb, self.world, self, market, orders)

        def do(self, act, market):
            from flumine.order.trade import Trade
            from flumine.order.ordertype import LimitOrder, LimitOnCloseOrder, MarketOnCloseOrder
            from flumine.exceptions import FlumineException

            w = self.world
            k = act[0]
            out, order = None, None
            pre = w.hooks_get("pre_action")
            try:
                if k == "P":
                    t = act[1]
                    tr = t.get("trade", "new")
                    if tr == "new" or not (isinstance(tr, int) and tr < len(self.trades_known)):
                        trade = Trade(market.market_id, t.get("sel", 1), t.get("hc", 0), self, **(t.get("trade_kw") or {}))
                        self.trades_known.append(trade)
                    else:
                        trade = self.trades_known[tr]
                    ot = t.get("ot", "L")
                    if ot == "L":
                        lkw = {}
                        if market.market_id in getattr(w, "line_markets", ()):
                            from betfairlightweight.resources.bettingresources import LineRangeInfo

                            lkw = dict(price_ladder_definition="LINE_RANGE", line_range_info=LineRangeInfo(marketUnit="u", interval=1, minUnitValue=0.5, maxUnitValue=9.5))
                        order_type = LimitOrder(t["price"], t.get("size"), persistence_type=t.get("pers", "LAPSE"), **lkw)
                    elif ot == "LOC":
                        order_type = LimitOnCloseOrder(t["liab"], t["price"])
                    else:
                        order_type = MarketOnCloseOrder(t["liab"])
                    order = trade.create_order(t["side"], order_type)
                    self.known.append(order)
                    if not hasattr(self, "_created"):
                        self._created = []
                    self._created.append(order)
                    if pre:
                        w.safe(pre, w, self, market, act, order)
                    out = market.place_order(order, force=bool(t.get("force")))
                elif k == "PP":  # several placements in one transaction -> one package
                    with market.transaction() as tx:
                        outs = []
                        for t in act[1]:
                            trade = Trade(market.market_id, t.get("sel", 1), t.get("hc", 0), self)
                            self.trades_known.append(trade)
                            order = trade.create_order(t["side"], LimitOrder(t["price"], t.get("size"), persistence_type=t.get("pers", "LAPSE")))
                            self.known.append(order)
                            if not hasattr(self, "_created"):
                                self._created = []
                            self._created.append(order)
                            outs.append(tx.place_order(order))
                    out = all(outs)
                elif k in ("C", "U", "R"):
                    order = self.known[act[1]] if act[1] < len(self.known) else None
                    if order is None:
                        out = "noorder"
                    else:
                        if pre:
                            w.safe(pre, w, self, market, act, order)
                        if k == "C":
                            out = market.cancel_order(order, act[2] if len(act) > 2 else None)
                        elif k == "U":
                            out = market.update_order(order, act[2])
                        else:
                            out = market.replace_order(order, act[2])
                elif k in ("CC", "UU", "RR"):  # several requests of one kind in one transaction
                    with market.transaction() as tx:
                        outs = []
                        for spec in act[1]:
                            order = self.known[spec[0]] if spec[0] < len(self.known) else None
                            if order is None:
                                outs.append("noorder")
                                continue
                            try:
                                if k == "CC":
                                    outs.append(tx.cancel_order(order, spec[1] if len(spec) > 1 else None))
                                elif k == "UU":
                                    outs.append(tx.update_order(order, spec[1]))
                                else:
                                    outs.append(tx.replace_order(order, spec[1]))
                            except FlumineException as e:
                                outs.append("raise:" + type(e).__name__)
                    out = str(outs)
                else:
                    raise core.HarnessError("unknown live action %r" % (act,))
            except core.HarnessError:
                raise
            except FlumineException as e:
                out = "raise:" + type(e).__name__
            except Exception as e:
                out = "raise!:" + type(e).__name__ + ":" + str(e)[:80]
            self.log.append((0, len(self.log), act, out))
            post = w.hooks_get("post_action")
            if post:
                w.safe(post, w, self, market, act, order, out)
            return out

    return LiveFlumine, LiveScripted


_LC = None


def live_classes():
    global _LC
    if _LC is None:
        _LC = make_live_classes()
    return _LC


class _TimeShim:
    """replaces the `time` module inside flumine.order.orderpackage / flumine.execution.baseexecution"""

    def __init__(self, world):
        self.world = world

    def sleep(self, s):
        self.world.slept.append(s)

    def time(self):
        return self.world.now_ms() / 1e3


class LiveWorld:
    """Deterministic live-trading world; events are applied one at a time by the explorer."""

    MARKET_ID = "1.100000001"

    def __init__(self, script, hooks=None, cfg=None, strategy_kw=None, async_place=False, fault_plan=None, transaction_limit=5000, strategies=("S0",), skip_strategies=(), budgets=None, exchange=None, markets=None, line_markets=()):
        self.line_markets = tuple(line_markets)
        self.script = list(script)  # list of (strategy index, action)
        self.hooks = hooks
        self.cfg = dict(cfg or {})
        self.strategy_kw = strategy_kw or {}
        self.async_place = async_place
        self.fault_plan = dict(fault_plan or {})
        self.transaction_limit = transaction_limit
        self.strategy_names = list(strategies)
        self.skip_strategies = set(skip_strategies)
        self.budgets = dict(fill=1, lapse=0, dup=0, stale=0, tick=0, crash=0)
        self.budgets.update(budgets or {})
        self.errors = []
        self.market_identity = []
        self.local = threading.local()
        self.clock_ms = T0
        self.slept = []
        self.api_attempts = []
        self.transport_faults_seen = 0
        self.exchange = exchange or Exchange(self)
        self.exchange.world = self
        self.script_pos = 0
        self.trace = []
        self.status_cb = None
        self.trade_status_cb = None
        self.markets = markets or [self.MARKET_ID]
        self.last_delivered = None
        self.handler_exceptions = []
        self.generation = 0
        self._patched = False

    # -- plumbing shared with simx instrumentation
    def hooks_get(self, name):
        h = self.hooks
        return getattr(h, name, None) if h is not None else None

    def safe(self, cb, *a):
        try:
            return cb(*a)
        except Exception:
            self.errors.append(traceback.format_exc())

    def now_ms(self):
        return self.clock_ms

    def set_clock(self):
        from flumine import config

        config.current_time = _dt.datetime.utcfromtimestamp(self.clock_ms / 1e3)

    # -- lifecycle
    def start(self):
        import betfairlightweight
        from flumine import clients, config
        from flumine.simulation.utils import NewDateTime
        import flumine.order.orderpackage as op
        import flumine.execution.baseexecution as be

        simx.install_hooks()
        self._cfg_cm = core.owned_config(**dict(dict(simulated=False, async_place_orders=self.async_place), **self.cfg))
        self._cfg_cm.__enter__()
        self._real_dt = _dt.datetime
        _dt.datetime = NewDateTime
        self.set_clock()
        self._saved_time = (op.time, be.time)
        shim = _TimeShim(self)
        op.time = shim
        be.time = shim
        self._patched = True
        simx._CUR = self
        self.api = betfairlightweight.APIClient("verif", "pw", app_key="key", certs="/nonexistent")
        self.session = FakeSession(self)
        self.build_framework()
        return self

    def build_framework(self):
        from flumine import clients

        LiveFlumine, LiveScripted = live_classes()
        self.client = clients.BetfairClient(self.api, transaction_limit=self.transaction_limit)
        fw = self.framework = LiveFlumine(self.client)
        self.recorder = simx.Recorder(self)
        fw.add_logging_control(self.recorder)
        self.pool = ControlledPool(self)
        fw.betfair_execution._thread_pool = self.pool
        fw.betfair_execution._get_http_session = lambda: self.session
        self.strategies = []
        for i, name in enumerate(self.strategy_names):
            if name in self.skip_strategies and self.generation > 0:
                continue
            kw = dict(max_order_exposure=None, max_selection_exposure=None, max_live_trade_count=5)
            kw.update(self.strategy_kw)
            st = LiveScripted(self, market_filter={"marketIds": self.markets}, name=name, **kw)
            fw.add_strategy(st)
            self.strategies.append(st)
        self.order_stream_id = 999
        self._make_order_stream()
        self.market_stream_id = self.strategies[0].streams[0].stream_id if self.strategies else 10000
        self.packages = []
        orig = fw.process_order_package

        def process_order_package(package):
            self.packages.append(package)
            cb = self.hooks_get("package")
            if cb:
                self.safe(cb, self, package)
            return orig(package)

        fw.process_order_package = process_order_package
        st_cb = self.hooks_get("status")
        self.status_cb = (lambda order, prev, new, site: st_cb(self, order, prev, new, site)) if st_cb else None
        tst_cb = self.hooks_get("trade_status")
        self.trade_status_cb = (lambda trade, prev, new, site: tst_cb(self, trade, prev, new, site)) if tst_cb else None
        # market books: one real MarketBook per market from the stream-line generator
        self.books = {}
        self.pending_books = []
        for mid in self.markets:
            self.books[mid] = self._make_book(mid)
            if getattr(self, "late_books", False):
                # after a restart the first market books may arrive after the first order-stream image ("B" events)
                self.pending_books.append(mid)
            else:
                self.dispatch(self._book_event(mid))

    def _make_book(self, mid, status="OPEN"):
        from betfairlightweight.streaming.cache import MarketBookCache

        lkw = dict(ladder="LINE_RANGE", line=(0.5, 9.5, 1), betting_type="LINE", market_type="TOTAL_LINE") if mid in getattr(self, "line_markets", ()) else {}
        spec = simx.MarketSpec(market_id=mid, book0={1: {"atb": [[2.0, 10]], "atl": [[2.2, 10]]}, 2: {"atb": [[3.0, 10]], "atl": [[3.2, 10]]}}, status0=status, t0=self.clock_ms, **lkw)
        line = json.loads(spec.gen([])[0][0])
        cache = MarketBookCache(mid, self.clock_ms, False, True, False)
        cache.update_cache(line["mc"][0], self.clock_ms, True)
        return cache

    def _book_event(self, mid):
        from flumine.events import events

        cache = self.books[mid]
        cache.publish_time = self.clock_ms
        mb = cache.create_resource(self.market_stream_id, snap=True)
        return events.MarketBookEvent([mb])

    def _make_order_stream(self):
        """the real OrderStream object: its run() is executed once against a recording streaming client (what
        it subscribes to decides which bets the double streams), its output loop is executed one iteration per
        delivered update (stream_output)"""
        from flumine.streams.orderstream import OrderStream

        world = self
        st = OrderStream(self.framework, self.order_stream_id, streaming_timeout=0.25, conflate_ms=None, client=self.client)
        self.order_stream = st

        class _T:
            def is_alive(s):
                return True

        st._output_thread = _T()
        rec = {}

        class _Stream:
            def subscribe_to_orders(s, order_filter=None, conflate_ms=None, **kw):
                rec["filter"] = order_filter
                return world.order_stream_id

            def start(s):
                return None

        class _Streaming:
            def create_stream(s, unique_id=0, listener=None, **kw):
                return _Stream()

        saved = self.api.streaming
        self.api.streaming = _Streaming()
        try:
            run = getattr(OrderStream.run, "__wrapped__", None)
            if run is None:
                raise core.HarnessError("OrderStream.run is not a plain wrapped function any more")
            run(st)
        finally:
            self.api.streaming = saved
        f = rec.get("filter") or {}
        refs = f.get("customerStrategyRefs")
        self.subscribed_refs = set(refs) if refs else None

    def stream_output(self, order_books):
        """one iteration of the real OrderStream.handle_output loop; order_books=None is the queue time-out
        (periodic empty snap).  Returns the events the loop put on the handler queue."""
        import queue as _q

        st = self.order_stream
        alive = iter([True, False])
        st.is_alive = lambda: next(alive)

        class _Q:
            def get(s, block=True, timeout=None):
                if order_books is None:
                    raise _q.Empty
                return order_books

        st._output_queue = _Q()
        fw = self.framework
        before = []
        while not fw.handler_queue.empty():
            before.append(fw.handler_queue.get())
        st.handle_output()
        out = []
        while not fw.handler_queue.empty():
            out.append(fw.handler_queue.get())
        for e in before:
            fw.handler_queue.put(e)
        return out

    def deliver(self, order_books):
        n = 0
        for e in self.stream_output(order_books):
            self.dispatch(e)
            n += 1
        return n

    def dispatch(self, event):
        """one event through the real Flumine.run() loop"""
        from flumine.events import events

        fw = self.framework
        fw.handler_queue.put(event)
        fw.handler_queue.put(events.TerminationEvent(None))
        try:
            fw.run()
        except core.HarnessError:
            raise
        except Exception:
            self.handler_exceptions.append(traceback.format_exc())
        # anything the handler itself queued (e.g. CloseMarketEvent) is processed next
        while not fw.handler_queue.empty():
            ev = fw.handler_queue.get()
            if ev.EVENT_TYPE.name == "TERMINATOR":
                continue
            fw.handler_queue.put(ev)
            fw.handler_queue.put(events.TerminationEvent(None))
            try:
                fw.run()
            except Exception:
                self.handler_exceptions.append(traceback.format_exc())

    def stop(self):
        import flumine.order.orderpackage as op
        import flumine.execution.baseexecution as be

        try:
            self.pool.abandon()
        finally:
            if self._patched:
                op.time, be.time = self._saved_time
                _dt.datetime = self._real_dt
                simx._CUR = None
                self._cfg_cm.__exit__(None, None, None)
                self._patched = False
        if self.errors:
            raise core.HarnessError("hook error:\n" + self.errors[0])
        for t in self.pool.tasks:
            if t.error:
                self.handler_exceptions.append(t.error)

    # -- explorer interface
    def market(self, mid=None):
        return self.framework.markets.markets.get(mid or self.markets[0])

    def enabled(self):
        ev = []
        if self.script_pos < len(self.script):
            ev.append(("S",))
        for i, t in enumerate(self.pool.tasks):
            if t.state == "new":
                ev.append(("X_send", i))
            elif t.state == "at_post":
                ev.append(("X_apply", i))
        if self.exchange.snap_queue:
            ev.append(("D",))
            if self.budgets["stale"] > 0 and len(self.exchange.snap_queue) > 1:
                ev.append(("Dskip",))  # the older snapshot is overtaken: deliver the newest, keep the old one for later (stale)
        if self.budgets["dup"] > 0 and self.last_delivered is not None:
            ev.append(("Dd",))
        if self.exchange.pending_async:
            ev.append(("EX_accept",))
            if self.budgets["fill"] > 0:
                ev.append(("EX_accept", "filled"))
        for n, b in enumerate(sorted(self.exchange.executable_bets(), key=lambda b: b.bet_id)):
            if self.budgets["fill"] > 0:
                ev.append(("EX_fill", b.bet_id, "half"))
                ev.append(("EX_fill", b.bet_id, "all"))
            if self.budgets["lapse"] > 0:
                ev.append(("EX_lapse", b.bet_id))
        if self.budgets["tick"] > 0:
            ev.append(("TICK",))
        if self.budgets["crash"] > 0:
            for img in getattr(self, "crash_images", ("executable", "all")):
                ev.append(("CRASH", img))
        if getattr(self, "pending_books", None):
            ev.append(("B",))
        return ev

    def quiescent(self):
        return self.script_pos >= len(self.script) and not self.pool.outstanding() and not self.exchange.snap_queue and not self.exchange.pending_async and not getattr(self, "pending_books", None)

    def do(self, ev):
        from flumine.events import events

        self.trace.append(ev)
        self.clock_ms += 10
        self.set_clock()
        k = ev[0]
        if k == "S":
            sidx, act = self.script[self.script_pos]
            self.script_pos += 1
            live = [s for s in self.strategies if s.name == self.strategy_names[sidx]]
            if live:
                live[0].next_action = act
                mid = self.markets[act[1].get("market", 0)] if act[0] == "P" and isinstance(act[1], dict) else self.markets[0]
                self.dispatch(self._book_event(mid))
        elif k in ("X_send", "X_apply"):
            t = self.pool.tasks[ev[1]]
            expected = "new" if k == "X_send" else "at_post"
            if t.state != expected:
                raise core.HarnessError("replay divergence: task %d is %s, event %s" % (ev[1], t.state, k))
            t.step()
            if t.state == "done":
                cb = self.hooks_get("task_done")
                if cb:
                    self.safe(cb, self, t)
        elif k in ("D", "Dskip"):
            q = self.exchange.snap_queue
            mid, res = q.pop(0) if k == "D" else q.pop(-1)
            if k == "Dskip":
                self.budgets["stale"] -= 1
            self.last_delivered = (mid, res)
            self.deliver([res])
        elif k == "Dd":
            self.budgets["dup"] -= 1
            mid, res = self.last_delivered
            self.deliver([res])
        elif k == "EX_accept":
            if len(ev) > 1:
                self.budgets["fill"] -= 1
                self.exchange.accept_async(filled=True)
            else:
                self.exchange.accept_async()
        elif k == "EX_fill":
            self.budgets["fill"] -= 1
            b = self.exchange.bets[ev[1]]
            self.exchange.fill(b, b.sr if ev[2] == "all" else round(b.sr / 2, 2))
        elif k == "EX_lapse":
            self.budgets["lapse"] -= 1
            self.exchange.lapse(self.exchange.bets[ev[1]])
        elif k == "TICK":
            self.budgets["tick"] -= 1
            self.clock_ms += int(ev[1] * 1000) if len(ev) > 1 else 3600_000
            self.set_clock()
        elif k == "B":
            mid = self.pending_books.pop(0)
            self.dispatch(self._book_event(mid))
        elif k == "CRASH":
            self.budgets["crash"] -= 1
            self.crash(ev[1])
        else:
            raise core.HarnessError("unknown event %r" % (ev,))
        cb = self.hooks_get("after_event")
        if cb:
            self.safe(cb, self, ev)

    def crash(self, image):
        """the process dies: outstanding responses are lost, queued snapshots are lost; a new instance
        with the same strategies subscribes again and receives a fresh image of every market."""
        pre = self.hooks_get("before_crash")
        if pre:
            self.safe(pre, self)
        self.pool.abandon()
        self.exchange.snap_queue.clear()
        self.exchange.caches.clear()
        self.script_pos = len(self.script)  # the script belonged to the dead process
        self.generation += 1
        self.old_framework = self.framework
        self.old_strategies = self.strategies
        self.late_books = image.endswith("-late")
        self.build_framework()
        for mid in sorted({b.market_id for b in self.exchange.bets.values()}):
            self.exchange.publish(mid, [], fresh=True, executable_only=image.startswith("executable"))
        self.last_delivered = None

    # -- canonical state for dedup
    def canon(self):
        fw = self.framework
        out = []
        for mid in self.markets:
            m = fw.markets.markets.get(mid)
            if m is None:
                out.append(None)
                continue
            orders = list(m.blotter)
            oidx = {id(o): i for i, o in enumerate(orders)}
            rows = []
            for o in orders:
                rows.append(
                    (
                        o.status.name if o.status else None,
                        o.complete,
                        o.bet_id,
                        round(o.size_matched, 2),
                        round(o.size_remaining or 0, 2),
                        round(o.size_cancelled, 2),
                        round(o.size_lapsed, 2),
                        tuple(sorted((k, repr(v)) for k, v in o.update_data.items())),
                        getattr(o.order_type, "persistence_type", None),
                        getattr(o.order_type, "price", None),
                        o.trade.status.name,
                        len(o.responses.cancel_responses),
                        len(o.responses.update_responses),
                        o.responses.current_order is not None,
                    )
                )
            try:
                live = tuple(oidx.get(id(o), -1) for o in m.blotter._live_orders)
            except AttributeError:
                return None
            ctx = []
            for st in fw.strategies:
                for key, rc in sorted(st._invested.items(), key=lambda kv: repr(kv[0])):
                    ctx.append((st.name, key, len(rc.trades), len(rc.live_trades)))
            out.append((tuple(rows), live, tuple(ctx), m.closed))
        tasks = tuple((t.state, t.package.package_type.name if t.package is not None else None, getattr(t.package, "_retry_count", 0)) for t in self.pool.tasks if t.state != "done")
        snaps = tuple((mid, tuple((o.bet_id, o.status, o.size_matched, o.size_remaining) for o in res.orders)) for mid, res in self.exchange.snap_queue)
        cl = []
        for ctl in self.client.trading_controls:
            if hasattr(ctl, "transaction_count"):
                cl.append((ctl.transaction_count, ctl.failed_transaction_count, ctl.current_transaction_count, ctl.current_failed_transaction_count))
        last = None
        if self.last_delivered is not None and self.budgets["dup"] > 0:
            last = tuple((o.bet_id, o.status, o.size_matched, o.size_remaining) for o in self.last_delivered[1].orders)
        return (tuple(out), tasks, snaps, self.exchange.table(), len(self.exchange.pending_async), self.script_pos, tuple(sorted(self.budgets.items())), tuple(cl), last, len(self.exchange.calls), self.generation, tuple(getattr(self, "pending_books", ())))


# --------------------------------------------------------------------------------------
# explorer: depth-first over choice lists with canonical-state dedup, worlds rebuilt per path


def explore(make_world, check_state, max_depth=40, cap=200000, dedup=True):
    """make_world() -> fresh started LiveWorld.  check_state(world, path) is called after every event
    (it collects violations itself).  Returns dict(states, transitions, executions, capped)."""
    seen = set()
    stats = dict(states=0, transitions=0, executions=0, capped=False, max_depth=0, quiescent=0)
    stack = [[]]
    while stack:
        path = stack.pop()
        if stats["executions"] >= cap:
            stats["capped"] = True
            break
        w = make_world()
        try:
            for ev in path[:-1]:
                w.do(ev)
            if path:
                w.do(path[-1])
                stats["transitions"] += 1
            stats["executions"] += 1
            stats["max_depth"] = max(stats["max_depth"], len(path))
            check_state(w, path)
            if w.quiescent():
                stats["quiescent"] += 1
            c = w.canon() if dedup else None
            en = w.enabled() if len(path) < max_depth else []
        finally:
            w.stop()
        if c is not None:
            h = hash(c)
            if h in seen:
                continue
            seen.add(h)
        stats["states"] += 1
        for ev in reversed(en):
            stack.append(path + [ev])
    return stats
