"""Reference oracles: deliberately boring, exact-arithmetic restatements of the exchange's rules.
Nothing here imports flumine.utils / flumine.markets.blotter / flumine.simulation."""
import bisect
import itertools
from decimal import Decimal
from fractions import Fraction as F

# --------------------------------------------------------------------------------------
# A1 ladders (integer hundredths)

_BANDS = (
    (101, 200, 1),
    (200, 300, 2),
    (300, 400, 5),
    (400, 600, 10),
    (600, 1000, 20),
    (1000, 2000, 50),
    (2000, 3000, 100),
    (3000, 5000, 200),
    (5000, 10000, 500),
    (10000, 100000, 1000),
)


def classic_ticks():
    t = []
    for lo, hi, step in _BANDS:
        t.extend(range(lo, hi, step))
    t.append(100000)
    return t


CLASSIC = classic_ticks()  # 350 ticks in hundredths
CLASSIC_SET = set(CLASSIC)
FINEST = list(range(101, 100001))
FINEST_SET = set(FINEST)
assert len(CLASSIC) == 350


def band_index(h):
    for i, (lo, hi, step) in enumerate(_BANDS):
        if h < hi:
            return i
    return len(_BANDS) - 1


def dec(x):
    """The number as the user wrote it (shortest repr of a float; exact for int/Decimal/str)."""
    return Decimal(str(x))


def to_hundredths(x):
    """Exact hundredths of a number or None if it has more than 2 decimals."""
    d = dec(x) * 100
    if d != d.to_integral_value():
        return None
    return int(d)


def nearest_classic(x):
    """Set of acceptable answers (in hundredths) for rounding x to the CLASSIC ladder."""
    d = dec(x) * 100
    if d <= 101:
        return {101}
    if d >= 100000:
        return {100000}
    i = bisect.bisect_left(CLASSIC, d)  # CLASSIC[i-1] < d <= CLASSIC[i]
    lo, hi = CLASSIC[i - 1], CLASSIC[i]
    dl, dh = d - lo, hi - d
    eps = Decimal("1e-7")
    if abs(dl - dh) <= eps:
        return {lo, hi}
    return {lo} if dl < dh else {hi}


def ticks_away(h, n):
    i = CLASSIC.index(h)
    j = min(max(i + n, 0), len(CLASSIC) - 1)
    return CLASSIC[j]


def line_ticks(mn, mx, interval):
    """Line-range prices min + k*interval <= max, as exact Decimals."""
    out = []
    a, b, c = dec(mn), dec(mx), dec(interval)
    k = 0
    while a + k * c <= b:
        out.append(a + k * c)
        k += 1
    return out


def betdaq_ticks(cutoffs, min_price=Decimal("1.01"), max_price=Decimal("1000")):
    """Rebuild the Betdaq ladder with exact arithmetic from (cutoff, steps-per-unit) pairs (trusted)."""
    out = []
    cur = min_price
    for cutoff, per_unit in cutoffs:
        step = Decimal(1) / Decimal(str(per_unit))
        c = dec(cutoff)
        while cur < c:
            out.append(cur)
            cur += step
        cur = c
    out.append(max_price)
    return out


# --------------------------------------------------------------------------------------
# order validation rule (published Betfair rule restated from the currency table)


def has_2dp(x):
    return to_hundredths(x) is not None


def validate_order_ref(ot, side, price, size, liability, ladder_set, cur, min_bet_validation):
    """True = must be accepted, False = must be refused.
    ot in {"L","LOC","MOC"}; ladder_set: set of Decimal prices or callable(price)->bool."""

    def on_ladder(p):
        if p is None:
            return False
        try:
            d = dec(p)
        except Exception:
            return False
        return d in ladder_set

    if ot == "L":
        if size is None or not (dec(size) > 0) or not has_2dp(size):
            return False
        if not on_ladder(price):
            return False
        if min_bet_validation:
            if dec(size) < cur["min_bet_size"] and dec(price) * dec(size) < cur["min_bet_payout"]:
                return False
        return True
    if ot == "LOC":
        if not on_ladder(price):
            return False
    if liability is None or not (dec(liability) > 0) or not has_2dp(liability):
        return False
    if min_bet_validation:
        if side == "BACK" and dec(liability) < cur["min_bet_size"]:
            return False
        if side == "LAY" and dec(liability) < cur["min_bsp_liability"]:
            return False
    return True


# --------------------------------------------------------------------------------------
# A2 exposure (brute force over fill subsets / winner sets)


class RefOrder:
    """Plain record: side, kind in {LIMIT,LOC,MOC}, line(bool), status(str|None), complete(bool),
    fragments [(price,size)], remaining, limit price, liability."""

    __slots__ = ("side", "kind", "line", "status", "complete", "frags", "remaining", "limit", "liability", "lookup")

    def __init__(self, side, kind, line, status, complete, frags, remaining, limit, liability, lookup=None):
        self.side = side
        self.kind = kind
        self.line = line
        self.status = status
        self.complete = complete
        self.frags = [(F(str(p)), F(str(s))) for p, s in frags]
        self.remaining = F(str(remaining or 0))
        self.limit = F(str(limit)) if limit else None
        self.liability = F(str(liability)) if liability is not None else None
        self.lookup = lookup


def _contrib(side, p, s):
    """(profit if win, profit if lose) of a fill of size s at price p."""
    if side == "BACK":
        return (p - 1) * s, -s
    return -(p - 1) * s, s


def ref_selection(orders):
    """Worst-case (profit_if_win, profit_if_lose) over all subsets of open limit orders filling fully
    at their limit.  PENDING / VIOLATION / EXPIRED orders contribute nothing."""
    win = lose = F(0)
    open_ = []
    for o in orders:
        if o.status in ("PENDING", "VIOLATION", "EXPIRED"):
            continue
        if o.kind == "LIMIT":
            for p, s in o.frags:
                pp = F(2) if o.line else p
                a, b = _contrib(o.side, pp, s)
                win += a
                lose += b
            if not o.complete and o.remaining > 0 and o.limit:
                open_.append(o)
        else:
            if o.side == "BACK":
                lose -= o.liability
            else:
                win -= o.liability
    worst_win, worst_lose = None, None
    for r in range(len(open_) + 1):
        for sub in itertools.combinations(open_, r):
            w, l = win, lose
            for o in sub:
                pp = F(2) if o.line else o.limit
                a, b = _contrib(o.side, pp, o.remaining)
                w += a
                l += b
            worst_win = w if worst_win is None else min(worst_win, w)
            worst_lose = l if worst_lose is None else min(worst_lose, l)
    return worst_win, worst_lose


def ref_selection_exposure(orders):
    w, l = ref_selection(orders)
    return max(F(0), -min(w, l))


def ref_market(per_runner, n_active_without_bets, number_of_winners):
    """per_runner: list of (worst_win, worst_lose) for runners with bets (all treated as able to win);
    minimum total profit over every winner set of size number_of_winners among runners with bets and
    `n_active_without_bets` further runners (win = lose = 0)."""
    runners = list(per_runner) + [(F(0), F(0))] * max(0, n_active_without_bets)
    k = min(number_of_winners, len(runners))
    best = None
    idx = range(len(runners))
    for W in itertools.combinations(idx, k):
        Ws = set(W)
        tot = sum((runners[i][0] if i in Ws else runners[i][1]) for i in idx)
        best = tot if best is None else min(best, tot)
    if best is None:
        best = F(0)
    return best


# --------------------------------------------------------------------------------------
# A3 settlement


def ref_settle(side, kind, line, frags, result, market_type, ew_divisor, n_dead_heat, line_result):
    """Exact profit of one order.  Returns (value or None if undecided, kind-of-case)."""
    S = sum((F(str(s)) for _, s in frags), F(0))
    G = sum((F(str(s)) * (F(str(p)) - 1) for p, s in frags), F(0))
    if S == 0:
        return F(0), "unmatched"
    sign = 1 if side == "BACK" else -1
    if market_type == "EACH_WAY":
        d = F(str(ew_divisor))
        if result == "WINNER":
            return sign * (G + G / d), "ew-win"
        if result == "PLACED":
            return sign * (G / d - S), "ew-placed"
        if result == "LOSER":
            return sign * (-2 * S), "ew-lose"
        return F(0), "ew-none"
    if kind == "LIMIT" and line:
        if line_result is None:
            return F(0), "line-noresult"
        # all fragments at one line
        ell = F(str(frags[0][0]))
        rho = F(str(line_result))
        if ell == rho:
            return None, "line-equal"
        if side == "BACK":
            return (S if ell > rho else -S), "line"
        return (S if ell < rho else -S), "line"
    if result == "WINNER":
        n = n_dead_heat or 1
        back = G / n - S * (n - 1) / n
        return sign * back, "win" if n == 1 else "deadheat"
    if result == "LOSER":
        return sign * (-S), "lose"
    return F(0), "none"
