"""Shared core: environment ownership, violation collection, known findings,
evidence / replay writers, parallel map.  Engines and property modules build on this."""
import contextlib
import hashlib
import json
import logging
import multiprocessing
import os
import random
import shutil
import sys
import time

VERIF = os.path.dirname(os.path.dirname(os.path.abspath(__file__)))
REPO = os.environ.get("VERIF_REPO", "/repo")
# VERIF_OUT: used only by tools/mutant.py so that runs against scratch worktrees (possibly several at once) neither
# touch the committed evidence nor each other's replay files
_OUT = os.environ.get("VERIF_OUT") or VERIF
EVIDENCE_DIR = os.path.join(_OUT, "evidence")
REPLAY_DIR = os.path.join(_OUT, "replays")
KNOWN_FINDINGS = os.path.join(VERIF, "known_findings.json")

EXIT_OK, EXIT_VIOLATION, EXIT_INCONCLUSIVE, EXIT_HARNESS = 0, 1, 2, 3


class HarnessError(Exception):
    """The machinery (not flumine) is wrong: nondeterminism, replay divergence, bad world."""


def assert_repo():
    import flumine

    if not os.path.abspath(flumine.__file__).startswith(REPO + "/"):
        raise HarnessError("flumine imported from %s, not %s" % (flumine.__file__, REPO))


def seed():
    try:
        return int(os.environ.get("VERIF_SEED", "0"))
    except ValueError:
        return 0


def workers():
    try:
        return max(1, int(os.environ.get("VERIF_WORKERS", "16")))
    except ValueError:
        return 16


def git_head():
    try:
        import subprocess

        h = subprocess.run(
            ["git", "-C", REPO, "rev-parse", "HEAD"], capture_output=True, text=True
        ).stdout.strip()
        d = subprocess.run(
            ["git", "-C", REPO, "status", "--porcelain", "--untracked-files=no"],
            capture_output=True,
            text=True,
        ).stdout.strip()
        return h, bool(d)
    except Exception:
        return "unknown", False


# --------------------------------------------------------------------------------------
# flumine.config ownership

_CONFIG_DEFAULTS = dict(
    simulated=True,
    simulated_strategy_isolation=True,
    simulation_available_prices=False,
    raise_errors=False,
    place_latency=0.120,
    cancel_latency=0.170,
    update_latency=0.150,
    replace_latency=0.280,
    order_sep="-",
    async_place_orders=False,
    customer_strategy_ref="verif",
    execution_retry_attempts=10,
    current_time=None,
    max_execution_workers=32,
)


@contextlib.contextmanager
def owned_config(**over):
    from flumine import config

    saved = {k: getattr(config, k) for k in _CONFIG_DEFAULTS}
    vals = dict(_CONFIG_DEFAULTS)
    vals.update(over)
    for k, v in vals.items():
        setattr(config, k, v)
    try:
        yield config
    finally:
        for k, v in saved.items():
            setattr(config, k, v)


def setup_logging(level=None):
    """flumine evaluates order.info payloads only when the level is enabled; WARNING by default
    (payloads of warnings/errors evaluated as in production), INFO for the thorough re-run."""
    if level is None:
        level = getattr(logging, os.environ.get("VERIF_LOGLEVEL", "WARNING"))
    root = logging.getLogger()
    for h in list(root.handlers):
        root.removeHandler(h)
    root.addHandler(logging.NullHandler())
    root.setLevel(level)
    logging.getLogger("flumine").setLevel(level)
    logging.getLogger("betfairlightweight").setLevel(logging.ERROR)
    logging.raiseExceptions = True


# --------------------------------------------------------------------------------------
# scratch


_scratch = None


def scratch_dir():
    global _scratch
    if _scratch is None or not os.path.isdir(_scratch):
        base = "/dev/shm" if os.path.isdir("/dev/shm") else os.path.join(VERIF, ".work")
        _scratch = os.path.join(base, "verif-%d" % os.getpid())
        os.makedirs(_scratch, exist_ok=True)
    return _scratch


def cleanup_scratch(path=None):
    global _scratch
    p = path or _scratch
    if p and os.path.isdir(p):
        shutil.rmtree(p, ignore_errors=True)
    if path is None:
        _scratch = None


# --------------------------------------------------------------------------------------
# parallel map (long-lived fork workers; no fork per execution)


def _worker_init(init, seed_):
    setup_logging()
    random.seed(seed_)
    if init:
        init()


def _chunk_runner(args):
    func, chunk = args
    try:
        return [func(x) for x in chunk]
    finally:
        pass


def pmap(func, items, chunk=None, init=None, nworkers=None):
    """Apply func to every item (all of them: exhaustive), order of work permuted by VERIF_SEED,
    results returned in the *original* item order so verdicts and counts are seed independent."""
    items = list(items)
    n = len(items)
    if n == 0:
        return []
    idx = list(range(n))
    random.Random(seed()).shuffle(idx)
    nworkers = nworkers or workers()
    if nworkers == 1 or n < 8:
        if init:
            init()
        out = [None] * n
        for i in idx:
            out[i] = func(items[i])
        return out
    if chunk is None:
        chunk = max(1, min(256, n // (nworkers * 8) or 1))
    chunks = [idx[i : i + chunk] for i in range(0, n, chunk)]
    ctx = multiprocessing.get_context("fork")
    out = [None] * n
    with ctx.Pool(nworkers, initializer=_worker_init, initargs=(init, seed())) as pool:
        for ids, res in zip(
            chunks,
            pool.imap(_chunk_runner, [(func, [items[i] for i in ids]) for ids in chunks]),
        ):
            for i, r in zip(ids, res):
                out[i] = r
    return out


# --------------------------------------------------------------------------------------
# violations, findings, evidence


def jsonable(x):
    if isinstance(x, dict):
        return {str(k): jsonable(v) for k, v in x.items()}
    if isinstance(x, (list, tuple, set, frozenset)):
        return [jsonable(v) for v in x]
    if isinstance(x, (str, int, float, bool)) or x is None:
        return x
    return repr(x)


def stable_hash(x):
    return hashlib.sha1(json.dumps(jsonable(x), sort_keys=True).encode()).hexdigest()


class Violation:
    __slots__ = ("clause", "key", "detail", "case", "size")

    def __init__(self, clause, key, detail, case, size=None):
        self.clause = clause
        self.key = tuple(str(k) for k in (clause,) + tuple(key))
        self.detail = detail
        self.case = case
        self.size = size if size is not None else len(json.dumps(jsonable(case)))

    def to_dict(self):
        return dict(clause=self.clause, key=list(self.key), detail=self.detail, case=self.case)

    @staticmethod
    def from_dict(d):
        return Violation(d["clause"], d["key"][1:], d["detail"], d["case"])


def v(clause, key, detail, case, size=None):
    """Shorthand used by worker functions: returns a plain dict (picklable, small)."""
    return Violation(clause, key, detail, case, size).to_dict()


class Report:
    """Aggregates what one check run covered and found."""

    def __init__(self, prop_id, tier, engine):
        self.prop_id = prop_id
        self.tier = tier
        self.engine = engine
        self.t0 = time.time()
        self.by_key = {}  # key -> (count, smallest Violation)
        self.clauses = {}  # clause -> evaluations
        self.interesting = {}  # vacuity counters
        self.mandatory = set()
        self.bounds = {}
        self.samples = []
        self.states = 0
        self.transitions = 0
        self.traces = 0
        self.evaluations = 0
        self.nontrivial = 0
        self.rule = ""
        self.outcomes = set()
        self.exhaustive = True
        self.caps_hit = []
        self.assumptions = []
        self.extra = {}
        self.per_level = []

    # -- accumulation
    def add_violations(self, dicts):
        for d in dicts or ():
            vi = Violation.from_dict(d)
            cur = self.by_key.get(vi.key)
            if cur is None:
                self.by_key[vi.key] = [1, vi]
            else:
                cur[0] += 1
                if vi.size < cur[1].size:
                    cur[1] = vi

    def count(self, name, n=1, mandatory=False):
        self.interesting[name] = self.interesting.get(name, 0) + n
        if mandatory:
            self.mandatory.add(name)

    def need(self, *names):
        for n in names:
            self.mandatory.add(n)
            self.interesting.setdefault(n, 0)

    def clause_evals(self, clause, n=1):
        self.clauses[clause] = self.clauses.get(clause, 0) + n

    def merge_counts(self, d, mandatory=()):
        for k, n in (d or {}).items():
            if k.startswith("clause:"):
                self.clause_evals(k[7:], n)
            else:
                self.count(k, n)
        for m in mandatory:
            self.mandatory.add(m)

    def sample(self, s, limit=5):
        if len(self.samples) < limit:
            self.samples.append(jsonable(s))

    # -- finish
    def _known(self):
        try:
            with open(KNOWN_FINDINGS) as f:
                data = json.load(f)
        except FileNotFoundError:
            return []
        return [
            e
            for e in data.get("findings", [])
            if e.get("property") == self.prop_id and not e.get("fixed")
        ]

    @staticmethod
    def _match(entry_key, key):
        """Known-finding keys may use '*' for a component; lengths must agree."""
        if len(entry_key) != len(key):
            return False
        return all(a == "*" or str(a) == str(b) for a, b in zip(entry_key, key))

    def finish(self):
        wall = time.time() - self.t0
        known = self._known()
        head, dirty = git_head()
        unknown, known_seen = [], []
        for key in sorted(self.by_key):
            cnt, vi = self.by_key[key]
            hit = None
            for e in known:
                if self._match(e["key"], key):
                    hit = e
                    break
            if hit:
                known_seen.append((key, cnt, hit))
            else:
                unknown.append((key, cnt, vi))
        # vacuity
        vac = [m for m in sorted(self.mandatory) if not self.interesting.get(m)]
        rc = EXIT_OK
        for key, cnt, hit in known_seen:
            print(
                "KNOWN-FINDING: property=%s %s %s (seen %d times)"
                % (self.prop_id, "/".join(key), hit.get("text", ""), cnt)
            )
        # replay artefacts always belong to the latest run: drop what an earlier run left behind
        rdir = os.path.join(REPLAY_DIR, self.prop_id)
        if os.path.isdir(rdir):
            for fn in os.listdir(rdir):
                if fn.endswith(".json"):
                    try:
                        os.remove(os.path.join(rdir, fn))
                    except OSError:
                        pass
        if unknown:
            rc = EXIT_VIOLATION
            os.makedirs(os.path.join(REPLAY_DIR, self.prop_id), exist_ok=True)
            for n, (key, cnt, vi) in enumerate(unknown):
                path = os.path.join(REPLAY_DIR, self.prop_id, "%d.json" % n)
                with open(path, "w") as f:
                    json.dump(
                        jsonable(
                            dict(
                                property=self.prop_id,
                                clause=vi.clause,
                                engine=self.engine,
                                finding_key=list(key),
                                occurrences=cnt,
                                detail=vi.detail,
                                case=vi.case,
                                flumine_git_head=head,
                                dirty=dirty,
                            )
                        ),
                        f,
                        indent=1,
                        sort_keys=True,
                    )
                print("  clause=%s key=%s n=%d :: %s" % (vi.clause, "/".join(key), cnt, vi.detail))
                print("VIOLATION property=%s replay=%s" % (self.prop_id, path))
        elif vac:
            rc = EXIT_INCONCLUSIVE
            print("INCONCLUSIVE property=%s vacuous counters: %s" % (self.prop_id, ", ".join(vac)))
        cov = dict(
            states=int(self.states),
            transitions=int(self.transitions),
            traces_validated_against_impl=int(self.traces),
            samples=self.samples or ["(none)"],
            exhaustive=bool(self.exhaustive and not self.caps_hit),
            evaluations=int(self.evaluations or self.transitions),
            distinct_nontrivial=int(self.nontrivial or self.states),
            rule=self.rule,
            bounds=jsonable(self.bounds),
            per_level=jsonable(self.per_level),
            caps_hit=self.caps_hit,
            clauses=dict(sorted(self.clauses.items())),
            interesting=dict(sorted(self.interesting.items())),
            distinct_outcomes=len(self.outcomes),
            known_findings_seen=[
                dict(key=list(k), occurrences=c) for k, c, _ in known_seen
            ],
            engine=self.engine,
            flumine_git_head=head,
            flumine_dirty=dirty,
        )
        cov.update(jsonable(self.extra))
        ev = dict(
            property_id=self.prop_id,
            tier=self.tier,
            seed=seed(),
            level="model_checking",
            coverage=cov,
            assumptions=self.assumptions,
            wall_s=round(wall, 3),
            violations=len(unknown),
        )
        os.makedirs(EVIDENCE_DIR, exist_ok=True)
        tmp = os.path.join(EVIDENCE_DIR, ".%s.json.tmp" % self.prop_id)
        with open(tmp, "w") as f:
            json.dump(ev, f, indent=1, sort_keys=True)
        os.replace(tmp, os.path.join(EVIDENCE_DIR, "%s.json" % self.prop_id))
        print(
            "%s tier=%s seed=%d engine=%s states=%d transitions=%d traces=%d outcomes=%d "
            "violations=%d known=%d wall=%.1fs exhaustive=%s"
            % (
                self.prop_id,
                self.tier,
                seed(),
                self.engine,
                cov["states"],
                cov["transitions"],
                cov["traces_validated_against_impl"],
                cov["distinct_outcomes"],
                len(unknown),
                len(known_seen),
                wall,
                cov["exhaustive"],
            )
        )
        if self.interesting:
            print("  interesting: " + ", ".join("%s=%d" % kv for kv in sorted(self.interesting.items())))
        if self.clauses:
            print("  clause evaluations: " + ", ".join("%s=%d" % kv for kv in sorted(self.clauses.items())))
        return rc


def merge_dict_counts(dst, src):
    for k, n in (src or {}).items():
        dst[k] = dst.get(k, 0) + n
    return dst
