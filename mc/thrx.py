"""E4 thrx: opcode-level, preemption-bounded thread interleaving explorer (CHESS-style) for small
pieces of real code.  Every bytecode of the traced code objects is a scheduling point; threads run
one at a time under a baton; locks are replaced by a cooperative lock the scheduler understands."""
import sys
import threading

from . import core


class Deadlock(Exception):
    pass


class CoopLock:
    """drop-in for threading.Lock inside traced code: blocked threads are disabled, not spinning"""

    def __init__(self, sched):
        self.sched = sched
        self.owner = None

    def acquire(self, blocking=True, timeout=-1):
        s = self.sched
        tid = s.current
        s.point(tid, "lock")  # acquiring is a scheduling point
        while self.owner is not None:
            s.block(tid, self)
        self.owner = tid
        return True

    def release(self):
        self.owner = None
        self.sched.unblock(self)

    def __enter__(self):
        self.acquire()
        return self

    def __exit__(self, *a):
        self.release()

    def locked(self):
        return self.owner is not None


class Scheduler:
    def __init__(self, bodies, traced_codes, choices):
        self.bodies = bodies
        self.traced = set(traced_codes)
        self.choices = list(choices)
        self.sems = [threading.Semaphore(0) for _ in bodies]
        self.main = threading.Semaphore(0)
        self.state = ["new"] * len(bodies)  # new / ready / blocked / done
        self.blocked_on = [None] * len(bodies)
        self.current = None
        self.points = []  # per decision: (enabled list, running still enabled?, chosen index)
        self.errors = []
        self.threads = []

    # --- called on worker threads
    def _trace(self, frame, event, arg):
        if event == "call":
            if frame.f_code in self.traced:
                frame.f_trace_opcodes = True
                return self._local
            return None
        return None

    def _local(self, frame, event, arg):
        if event == "opcode":
            self.point(self.current, "op")
        return self._local

    def point(self, tid, why):
        """yield to the scheduler and wait to be chosen again"""
        self.state[tid] = "ready"
        self.main.release()
        self.sems[tid].acquire()

    def block(self, tid, lock):
        self.state[tid] = "blocked"
        self.blocked_on[tid] = lock
        self.main.release()
        self.sems[tid].acquire()

    def unblock(self, lock):
        for i, l in enumerate(self.blocked_on):
            if l is lock and self.state[i] == "blocked":
                self.state[i] = "ready"
                self.blocked_on[i] = None

    def _run_body(self, tid):
        self.sems[tid].acquire()
        sys.settrace(self._trace)
        try:
            self.bodies[tid]()
        except BaseException as e:  # noqa
            import traceback

            self.errors.append(traceback.format_exc())
        finally:
            sys.settrace(None)
            self.state[tid] = "done"
            self.main.release()

    # --- scheduler (main thread)
    def run(self):
        n = len(self.bodies)
        for i in range(n):
            t = threading.Thread(target=self._run_body, args=(i,), daemon=True)
            self.threads.append(t)
            t.start()
            self.state[i] = "ready"
        running = None
        k = 0
        while True:
            enabled = [i for i in range(n) if self.state[i] == "ready"]
            if not enabled:
                if all(s == "done" for s in self.state):
                    break
                raise Deadlock("no enabled thread: %s" % self.state)
            # canonical order: the running thread first if still enabled, then ascending ids
            still = running in enabled
            order = ([running] if still else []) + [i for i in enabled if i != running]
            if k < len(self.choices):
                c = self.choices[k]
                if c >= len(order):
                    raise core.HarnessError("replay divergence: choice %d of %d at point %d" % (c, len(order), k))
            else:
                c = 0
            self.points.append((len(order), still, c))
            k += 1
            tid = order[c]
            running = tid
            self.current = tid
            self.sems[tid].release()
            self.main.acquire()
        for t in self.threads:
            t.join(timeout=1)
        return self


def preemptions_before(points, i):
    return sum(1 for (n, still, c) in points[:i] if still and c != 0)


def explore(make, check, bound, cap=200000):
    """make() -> (bodies, traced_codes, context).  check(context) is called after every complete
    schedule.  Iterative preemption bounding: all schedules with <= bound preemptions."""
    stats = dict(schedules=0, points=0, capped=False, max_points=0)
    stack = [[]]
    while stack:
        prefix = stack.pop()
        if stats["schedules"] >= cap:
            stats["capped"] = True
            break
        bodies, codes, ctx = make()
        s = Scheduler(bodies, codes, prefix)
        ctx["sched"] = s
        if "install" in ctx:
            ctx["install"](s)
        s.run()
        stats["schedules"] += 1
        stats["points"] += len(s.points)
        stats["max_points"] = max(stats["max_points"], len(s.points))
        check(ctx, s)
        chosen = [c for (_, _, c) in s.points]
        for i in range(len(prefix), len(s.points)):
            n, still, c = s.points[i]
            base = preemptions_before(s.points, i)
            for alt in range(1, n):
                cost = base + (1 if still else 0)
                if cost > bound:
                    continue
                stack.append(chosen[:i] + [alt])
    return stats
