"""./check entry point."""
import argparse
import importlib
import json
import os
import sys
import traceback

from . import core


def main(argv=None):
    ap = argparse.ArgumentParser(prog="check")
    ap.add_argument("prop")
    ap.add_argument("--tier", choices=["quick", "thorough"], default=None)
    ap.add_argument("--replay", default=None)
    ap.add_argument("--list-clauses", action="store_true")
    a = ap.parse_args(argv)
    tier = a.tier or os.environ.get("VERIF_TIER") or "quick"
    if tier not in ("quick", "thorough"):
        tier = "quick"
    pid = a.prop.upper()
    core.setup_logging()
    try:
        core.assert_repo()
        mod = importlib.import_module("props.%s" % pid.lower())
        if a.list_clauses:
            for k, t in sorted(getattr(mod, "CLAUSES", {}).items()):
                print("%s  %s" % (k, t))
            return 0
        if a.replay:
            with open(a.replay) as f:
                rep = json.load(f)
            return mod.replay(rep)
        rc = mod.run(tier)
    except core.HarnessError as e:
        print("HARNESS-ERROR property=%s %s" % (pid, e))
        traceback.print_exc()
        rc = core.EXIT_HARNESS
    except Exception as e:  # a crash of the checker is a broken check, never a verdict
        print("HARNESS-ERROR property=%s unexpected %r" % (pid, e))
        traceback.print_exc()
        rc = core.EXIT_HARNESS
    finally:
        core.cleanup_scratch()
    return rc


if __name__ == "__main__":
    sys.exit(main())
