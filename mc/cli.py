"""./check entry point."""
import argparse
import importlib
import json
import os
import sys
import traceback

from . import core


def _confirm(mod, pid):
    """Replay discipline: every violation about to be reported is re-executed twice from its replay file in a
    fresh world; if it does not reproduce both times the harness (not flumine) is at fault."""
    import contextlib
    import glob
    import io

    files = sorted(glob.glob(os.path.join(core.REPLAY_DIR, pid, "*.json")))[:8]
    reproduced, not_reproduced = [], []
    for f in files:
        with open(f) as fh:
            rep = json.load(fh)
        if rep.get("flumine_git_head") is None:
            continue
        ok = True
        for attempt in (1, 2):
            buf = io.StringIO()
            try:
                with contextlib.redirect_stdout(buf):
                    r = mod.replay(rep)
            except Exception as e:  # a replay that crashes is a harness problem as well
                print("HARNESS-NONDETERMINISM property=%s replay %s raised %r" % (pid, f, e))
                return core.EXIT_HARNESS
            if r == 0 and "re-run ./check" not in buf.getvalue() and "nothing to replay" not in buf.getvalue():
                ok = False
                not_reproduced.append((f, attempt))
                break
        if ok:
            reproduced.append(f)
    if not_reproduced and not reproduced:
        f, attempt = not_reproduced[0]
        print("HARNESS-NONDETERMINISM property=%s violation in %s did not reproduce on re-execution %d" % (pid, f, attempt))
        return core.EXIT_HARNESS
    for f, attempt in not_reproduced:
        # other violations of the same run reproduce from a fresh world: the run is believed; this one depends on
        # what the process executed before it (state shared between framework instances?) and is only noted
        print("NOTE property=%s violation in %s did not reproduce in isolation (it depends on earlier executions in the same process)" % (pid, f))
    return core.EXIT_VIOLATION


def main(argv=None):
    ap = argparse.ArgumentParser(prog="check")
    ap.add_argument("prop")
    ap.add_argument("--tier", choices=["quick", "thorough"], default=None)
    ap.add_argument("--replay", default=None)
    ap.add_argument("--list-clauses", action="store_true")
    a = ap.parse_args(argv)
    tier = a.tier or os.environ.get("VERIF_TIER") or "quick"
    if tier not in ("quick", "thorough"):
        tier = "quick"
    pid = a.prop.upper()
    core.setup_logging()
    try:
        core.assert_repo()
        mod = importlib.import_module("props.%s" % pid.lower())
        if a.list_clauses:
            for k, t in sorted(getattr(mod, "CLAUSES", {}).items()):
                print("%s  %s" % (k, t))
            return 0
        if a.replay:
            with open(a.replay) as f:
                rep = json.load(f)
            return mod.replay(rep)
        rc = mod.run(tier)
        if rc == core.EXIT_VIOLATION:
            rc = _confirm(mod, pid)
    except core.HarnessError as e:
        print("HARNESS-ERROR property=%s %s" % (pid, e))
        traceback.print_exc()
        rc = core.EXIT_HARNESS
    except Exception as e:  # a crash of the checker is a broken check, never a verdict
        print("HARNESS-ERROR property=%s unexpected %r" % (pid, e))
        traceback.print_exc()
        rc = core.EXIT_HARNESS
    finally:
        core.cleanup_scratch()
    return rc


if __name__ == "__main__":
    sys.exit(main())
