"""E1 simx: drive the REAL simulated exchange (FlumineSimulation.run over synthetic stream files)
from a history = list of ticks, with scripted strategies and observers; canonical state; explorers."""
import collections
import datetime as _dt
import itertools
import json
import os
import sys
import traceback

from . import core

T0 = 1700000000000  # 2023-11-14T22:13:20Z


def iso(ms):
    return _dt.datetime.utcfromtimestamp(ms / 1e3).strftime("%Y-%m-%dT%H:%M:%S.") + "%03dZ" % (
        ms % 1000
    )


class MarketSpec:
    """Static description of a synthetic market + generator of betfair stream lines."""

    def __init__(
        self,
        market_id="1.100000001",
        event_id="30000001",
        event_type_id="7",
        market_type="WIN",
        sels=((1, 0), (2, 0)),
        bsp=True,
        persistence=True,
        nwin=1,
        ew=None,
        ladder="CLASSIC",
        line=None,  # (min,max,interval)
        t0=T0,
        market_time_offset_s=3600,
        bet_delay=0,
        book0=None,  # {sel: {"atb": [[p,s]..], "atl": [...], "trd": [[p,s]..]}}
        status0="OPEN",
        inplay0=False,
        version0=1000,
        betting_type="ODDS",
        country="GB",
    ):
        self.market_id = market_id
        self.event_id = event_id
        self.event_type_id = event_type_id
        self.market_type = market_type
        self.sels = [tuple(s) if isinstance(s, (list, tuple)) else (s, 0) for s in sels]
        self.bsp = bsp
        self.persistence = persistence
        self.nwin = nwin
        self.ew = ew
        self.ladder = ladder
        self.line = line
        self.t0 = t0
        self.market_time_offset_s = market_time_offset_s
        self.bet_delay = bet_delay
        self.book0 = book0 or {}
        self.status0 = status0
        self.inplay0 = inplay0
        self.version0 = version0
        self.betting_type = betting_type
        self.country = country

    def to_json(self):
        return dict(self.__dict__)

    @staticmethod
    def from_json(d):
        d = dict(d)
        d["sels"] = [tuple(s) for s in d["sels"]]
        if d.get("line"):
            d["line"] = tuple(d["line"])
        d["book0"] = {int(k): v for k, v in (d.get("book0") or {}).items()}
        return MarketSpec(**d)

    # ---- line generation -------------------------------------------------------------
    def gen(self, ticks):
        """ticks: list of [dt_ms, ev]; returns (lines, pts).  Line 0 is the initial image at t0."""
        st = dict(
            version=self.version0,
            status=self.status0,
            inplay=self.inplay0,
            bet_delay=self.bet_delay,
            bsp_rec=False,
            mt_off=self.market_time_offset_s,
            runners={
                s: dict(status="ACTIVE", af=round(100.0 / len(self.sels), 2), bsp=None, rd=None)
                for s in self.sels
            },
            atb={s: {} for s in self.sels},
            atl={s: {} for s in self.sels},
            trd={s: {} for s in self.sels},
            ltp={s: None for s in self.sels},
        )

        def md():
            d = {
                "bspMarket": self.bsp,
                "turnInPlayEnabled": True,
                "persistenceEnabled": self.persistence,
                "marketBaseRate": 5,
                "eventId": self.event_id,
                "eventTypeId": self.event_type_id,
                "numberOfWinners": self.nwin,
                "bettingType": self.betting_type,
                "marketType": self.market_type,
                "marketTime": iso(self.t0 + st["mt_off"] * 1000),
                "suspendTime": iso(self.t0 + st["mt_off"] * 1000),
                "bspReconciled": st["bsp_rec"],
                "complete": True,
                "inPlay": st["inplay"],
                "crossMatching": True,
                "runnersVoidable": False,
                "numberOfActiveRunners": sum(
                    1 for r in st["runners"].values() if r["status"] == "ACTIVE"
                ),
                "betDelay": st["bet_delay"],
                "status": st["status"],
                "regulators": ["MR_INT"],
                "countryCode": self.country,
                "discountAllowed": True,
                "timezone": "Europe/London",
                "openDate": iso(self.t0),
                "version": st["version"],
                "priceLadderDefinition": {"type": self.ladder},
                "runners": [],
            }
            if self.ew:
                d["eachWayDivisor"] = self.ew
            if self.line:
                d["lineMinUnit"], d["lineMaxUnit"], d["lineInterval"] = self.line
            for i, s in enumerate(self.sels):
                r = st["runners"][s]
                rd = {"status": r["status"], "sortPriority": i + 1, "id": s[0]}
                if s[1]:
                    rd["hc"] = s[1]
                if r["af"] is not None:
                    rd["adjustmentFactor"] = r["af"]
                if r["bsp"] is not None:
                    rd["bsp"] = r["bsp"]
                if r["rd"]:
                    rd["removalDate"] = r["rd"]
                d["runners"].append(rd)
            return d

        def key(sel):
            if isinstance(sel, (list, tuple)):
                return tuple(sel)
            if isinstance(sel, str) and ":" in sel:  # "selection:handicap"
                a, b = sel.split(":")
                return (int(a), float(b) if float(b) != int(float(b)) else int(float(b)))
            for s in self.sels:
                if s[0] == sel:
                    return s
            raise core.HarnessError("unknown selection %r" % (sel,))

        def rc_entry(rcs, s):
            e = rcs.get(s)
            if e is None:
                e = rcs[s] = {"id": s[0]}
                if s[1]:
                    e["hc"] = s[1]
            return e

        def apply(ev, rcs, flags, pt):
            k = ev[0]
            if k == "Q":
                s = self.sels[0]
                st["ltp"][s] = round((st["ltp"][s] or 2.0), 2)
                rc_entry(rcs, s)["ltp"] = st["ltp"][s]
            elif k == "T":  # cumulative traded volume grows: ["T", sel, [[p, v], ...]]
                s = key(ev[1])
                e = rc_entry(rcs, s)
                for p, vol in ev[2]:
                    st["trd"][s][p] = round(st["trd"][s].get(p, 0) + vol, 2)
                    e.setdefault("trd", []).append([p, st["trd"][s][p]])
                    e["ltp"] = p
            elif k == "TA":  # absolute cumulative sizes (may decrease / repeat): ["TA", sel, [[p, size]]]
                s = key(ev[1])
                e = rc_entry(rcs, s)
                for p, size in ev[2]:
                    st["trd"][s][p] = size
                    e.setdefault("trd", []).append([p, size])
            elif k == "B":  # replace one side of the ladder: ["B", sel, "atb"|"atl", [[p,s],..]]
                s = key(ev[1])
                side = ev[2]
                e = rc_entry(rcs, s)
                new = {p: z for p, z in ev[3]}
                for p in list(st[side][s]):
                    if p not in new:
                        e.setdefault(side, []).append([p, 0])
                for p, z in new.items():
                    if st[side][s].get(p) != z:
                        e.setdefault(side, []).append([p, z])
                st[side][s] = new
            elif k == "SUS":
                st["status"] = "SUSPENDED"
                st["version"] += 1
                flags["md"] = True
            elif k == "OPN":
                st["status"] = "OPEN"
                st["version"] += 1
                flags["md"] = True
            elif k == "VER":  # version bump without status change
                st["version"] += 1
                flags["md"] = True
            elif k == "IP":  # ["IP", {sel: sp}, bet_delay]
                st["inplay"] = True
                st["bet_delay"] = ev[2] if len(ev) > 2 else st["bet_delay"]
                st["status"] = "OPEN"
                if self.bsp:
                    st["bsp_rec"] = True
                    for sel, sp in (ev[1] or {}).items():
                        st["runners"][key(int(sel) if not isinstance(sel, tuple) else sel)]["bsp"] = sp
                st["version"] += 1
                flags["md"] = True
            elif k == "BD":  # bet delay change only
                st["bet_delay"] = ev[1]
                flags["md"] = True
            elif k == "RM":  # ["RM", sel, af]
                s = key(ev[1])
                r = st["runners"][s]
                r["status"] = "REMOVED"
                r["af"] = ev[2]
                r["rd"] = iso(pt)
                st["version"] += 1
                flags["md"] = True
                e = rc_entry(rcs, s)
                for side in ("atb", "atl"):
                    for p in list(st[side][s]):
                        e.setdefault(side, []).append([p, 0])
                    st[side][s] = {}
            elif k == "MT":  # ["MT", seconds]: the scheduled start is moved (delayed > 0 / brought forward < 0)
                st["mt_off"] += ev[1]
                st["version"] += 1
                flags["md"] = True
            elif k == "AF":  # ["AF", {sel: adjustment factor}]: the exchange re-bases the remaining runners' factors
                for sel, af in ev[1].items():
                    st["runners"][key(int(sel) if not isinstance(sel, (tuple, list)) and not (isinstance(sel, str) and ":" in sel) else sel)]["af"] = af
                st["version"] += 1
                flags["md"] = True
            elif k == "CL":  # ["CL", {sel: result}]
                st["status"] = "CLOSED"
                st["inplay"] = st["inplay"]
                for sel, res in (ev[1] or {}).items():
                    r = st["runners"][key(sel if (isinstance(sel, (tuple, list)) or (isinstance(sel, str) and ":" in sel)) else int(sel))]
                    if r["status"] != "REMOVED":
                        r["status"] = res
                st["version"] += 1
                flags["md"] = True
            elif k == "MD":  # re-send the definition unchanged (e.g. repeated CLOSED)
                flags["md"] = True
            elif k == "M":  # several events in one update
                for sub in ev[1]:
                    apply(sub, rcs, flags, pt)
            else:
                raise core.HarnessError("unknown market event %r" % (ev,))

        lines, pts = [], []
        pt = self.t0
        # initial image
        rcs = {}
        for s in self.sels:
            b = self.book0.get(s) or self.book0.get(s[0]) or {}  # a (selection, handicap) key wins over the bare selection
            e = rc_entry(rcs, s)
            for side in ("atb", "atl", "trd"):
                lv = b.get(side) or []
                if lv:
                    e[side] = [list(x) for x in lv]
                    st[side][s] = {p: z for p, z in lv}
            if b.get("ltp"):
                e["ltp"] = b["ltp"]
                st["ltp"][s] = b["ltp"]
        mc = {"id": self.market_id, "marketDefinition": md(), "rc": list(rcs.values()), "img": True}
        lines.append(json.dumps({"op": "mcm", "clk": "0", "pt": pt, "mc": [mc]}))
        pts.append(pt)
        for n, (dt, ev) in enumerate(ticks):
            pt += int(dt)
            rcs, flags = {}, {}
            apply(ev, rcs, flags, pt)
            mc = {"id": self.market_id}
            if flags.get("md"):
                mc["marketDefinition"] = md()
            mc["rc"] = list(rcs.values())
            lines.append(json.dumps({"op": "mcm", "clk": str(n + 1), "pt": pt, "mc": [mc]}))
            pts.append(pt)
        return lines, pts


# --------------------------------------------------------------------------------------
# instrumentation installed once per process on the imported flumine classes

_CUR = None  # current SimWorld / LiveWorld receiving callbacks
_INSTALLED = False


def _site():
    """Qualified name of the innermost flumine function that asked for the status change."""
    f = sys._getframe(2)
    names = []
    while f is not None and len(names) < 6:
        co = f.f_code
        fn = co.co_filename
        if "/flumine/" in fn and "/verif/" not in fn:
            q = getattr(co, "co_qualname", co.co_name)
            names.append(q)
        f = f.f_back
    # skip the status helper frames (executable/execution_complete/...)
    for q in names:
        if q.split(".")[-1] not in (
            "executable",
            "execution_complete",
            "placing",
            "cancelling",
            "updating",
            "replacing",
            "violation",
            "_update_status",
        ):
            return q
    return names[0] if names else "?"


def install_hooks():
    global _INSTALLED
    if _INSTALLED:
        return
    _INSTALLED = True
    from flumine.order.order import BaseOrder
    from flumine.order.trade import Trade

    orig = BaseOrder._update_status

    def _update_status(self, status):
        w = _CUR
        if w is None or w.status_cb is None:
            return orig(self, status)
        prev = self.status
        site = _site()
        orig(self, status)
        try:
            w.status_cb(self, prev, status, site)
        except Exception:
            w.errors.append(traceback.format_exc())

    BaseOrder._update_status = _update_status

    torig = Trade._update_status

    def _t_update_status(self, status):
        w = _CUR
        if w is None or w.trade_status_cb is None:
            return torig(self, status)
        prev = self.status
        site = _site()
        torig(self, status)
        try:
            w.trade_status_cb(self, prev, status, site)
        except Exception:
            w.errors.append(traceback.format_exc())

    Trade._update_status = _t_update_status


class Recorder:
    """Synchronous stand-in for a LoggingControl (same logging_queue.put interface)."""

    NAME = "VERIF_RECORDER"

    def __init__(self, world):
        self.world = world
        self.events = []
        self.logging_queue = self

    def put(self, event):
        self.events.append(event)
        cb = self.world.hooks_get("log_event")
        if cb:
            self.world.safe(cb, self.world, event)

    def start(self):
        pass

    def is_alive(self):
        return False

    def join(self):
        pass


def make_strategy_classes():
    from flumine import BaseStrategy
    from flumine.order.trade import Trade
    from flumine.order.ordertype import LimitOrder, LimitOnCloseOrder, MarketOnCloseOrder
    from flumine.exceptions import FlumineException

    class Scripted(BaseStrategy):
        """Replays a script {(market_index, update_index): [actions]} from process_market_book."""

        def __init__(self, world, idx, script, client_idx=0, **kw):
            super().__init__(**kw)
            self.world = world
            self.idx = idx
            self.script = script
            self.client_idx = client_idx
            self.known = []  # orders by creation order (+ replacements as they appear)
            self.trades_known = []
            self.log = []  # (market_index, tick, action, outcome)
            self.seen = []  # (market_id, publish_time_epoch)
            self.counts = collections.Counter()

        def check_market_book(self, market, market_book):
            return True

        def _sync(self, market):
            for o in market.blotter.strategy_orders(self):
                if not any(o is k for k in self.known):
                    self.known.append(o)

        def process_market_book(self, market, market_book):
            w = self.world
            mi = w.market_index[market.market_id]
            tick = self.counts[market.market_id]
            self.counts[market.market_id] += 1
            self.seen.append((market.market_id, market_book.publish_time_epoch))
            self._sync(market)
            cb = w.hooks_get("strategy_tick")
            if cb:
                w.safe(cb, w, self, market, market_book, tick)
            for act in self.script.get((mi, tick), ()):
                self.do(act, market, mi, tick)

        def process_orders(self, market, orders):
            cb = self.world.hooks_get("orders")
            if cb:
                self.world.safe(cb, self.world, self, market, orders)

        def process_closed_market(self, market, market_book):
            self.world.closed_calls.append((self.idx, market.market_id))
            cb = self.world.hooks_get("closed")
            if cb:
                self.world.safe(cb, self.world, self, market, market_book)

        # -- actions
        def client(self):
            return self.world.clients[self.client_idx]

        def order_at(self, i):
            if isinstance(i, int) and 0 <= i < len(self.known):
                return self.known[i]
            return None

        def make_order(self, market, t):
            sel = t.get("sel", 1)
            hc = t.get("hc", 0)
            tr = t.get("trade", "new")
            if tr == "new" or not (isinstance(tr, int) and tr < len(self.trades_known)):
                trade = Trade(
                    market.market_id,
                    sel,
                    hc,
                    self,
                    **(t.get("trade_kw") or {}),
                )
                self.trades_known.append(trade)
            else:
                trade = self.trades_known[tr]
                if t.get("live_only", True) and trade.status.name == "COMPLETE":
                    return None  # adding an order to a completed trade is outside the explored domain
            ot = t.get("ot", "L")
            if ot == "L":
                kw = {}
                if t.get("ladder"):
                    kw["price_ladder_definition"] = t["ladder"]
                if t.get("line"):
                    from betfairlightweight.resources.bettingresources import LineRangeInfo

                    mn, mx, iv = t["line"]
                    kw["line_range_info"] = LineRangeInfo(
                        marketUnit="x", interval=iv, minUnitValue=mn, maxUnitValue=mx
                    )
                order_type = LimitOrder(
                    t["price"],
                    t.get("size"),
                    persistence_type=t.get("pers", "LAPSE"),
                    time_in_force=t.get("tif"),
                    min_fill_size=t.get("mf"),
                    **kw,
                )
            elif ot == "LOC":
                order_type = LimitOnCloseOrder(t["liab"], t["price"])
            elif ot == "MOC":
                order_type = MarketOnCloseOrder(t["liab"])
            else:
                raise core.HarnessError("bad order type %r" % ot)
            order = trade.create_order(t["side"], order_type)
            self.known.append(order)
            return order

        def _mv(self, market, m):
            if m == "cur":
                return market.market_book.version
            if m == "bad":
                return market.market_book.version - 7
            return m

        def do(self, act, market, mi, tick, txn=None):
            w = self.world
            k = act[0]
            target = txn if txn is not None else market
            out = None
            order = None
            pre = w.hooks_get("pre_action")
            try:
                if k == "P":
                    t = act[1]
                    order = self.make_order(market, t)
                    if order is None:
                        self.log.append((mi, tick, act, "notrade"))
                        return "notrade"
                    if pre:
                        w.safe(pre, w, self, market, act, order)
                    kw = dict(market_version=self._mv(market, t.get("mv")), force=bool(t.get("force")))
                    if txn is None:
                        kw["client"] = self.client() if self.client_idx else None
                    if t.get("with_trade"):
                        with order.trade:
                            out = target.place_order(order, **kw)
                    else:
                        out = target.place_order(order, **kw)
                elif k in ("C", "U", "R"):
                    order = self.order_at(act[1])
                    if order is None:
                        out = "noorder"
                    else:
                        if pre:
                            w.safe(pre, w, self, market, act, order)
                        force = bool(act[3]) if len(act) > 3 and k != "R" else False
                        if k == "C":
                            out = target.cancel_order(order, act[2] if len(act) > 2 else None, force=force)
                        elif k == "U":
                            out = target.update_order(order, act[2], force=force)
                        else:
                            mv = self._mv(market, act[3]) if len(act) > 3 else None
                            force = bool(act[4]) if len(act) > 4 else False
                            out = target.replace_order(order, act[2], market_version=mv, force=force)
                elif k == "TX":  # ["TX", [acts], [positions at which t.execute() is called]]
                    ex_at = set(act[2]) if len(act) > 2 and act[2] else set()
                    with market.transaction(client=self.client() if self.client_idx else None) as t:
                        for n, sub in enumerate(act[1]):
                            if n in ex_at:
                                t.execute()
                            self.do(sub, market, mi, tick, txn=t)
                        if len(act[1]) in ex_at:
                            t.execute()
                    out = "txn"
                elif k == "TXR":  # ["TXR", [acts]]: the strategy's own code raises inside the `with` block after the requests
                    with market.transaction(client=self.client() if self.client_idx else None) as t:
                        for n, sub in enumerate(act[1]):
                            self.do(sub, market, mi, tick, txn=t)
                        raise UserCodeError("strategy code raised inside the transaction block")
                elif k == "PA":  # ["PA", i, client index]: offer an order that was refused earlier again, through a (possibly different) client
                    order = self.order_at(act[1])
                    if order is None or order.status is None or order.status.name != "VIOLATION" or order.id in market.blotter:
                        out = "noorder"
                    else:
                        if pre:
                            w.safe(pre, w, self, market, act, order)
                        cl = w.clients[act[2]] if act[2] < len(w.clients) else None
                        out = market.place_order(order, client=cl) if cl is not None else "noorder"
                elif k == "XC":  # ["XC", kind, i, arg, client index, force]: a request on order i through the
                    # transaction of ANOTHER client than the order's
                    order = self.order_at(act[2])
                    if order is None:
                        out = "noorder"
                    else:
                        if pre:
                            w.safe(pre, w, self, market, act, order)
                        with market.transaction(client=w.clients[act[4]]) as t:
                            if act[1] == "C":
                                out = t.cancel_order(order, act[3], force=bool(act[5]))
                            elif act[1] == "U":
                                out = t.update_order(order, act[3], force=bool(act[5]))
                            else:
                                out = t.replace_order(order, act[3], force=bool(act[5]))
                elif k == "PX":  # ["PX", i]: the strategy hands an order it has ALREADY placed to place_order again
                    order = self.order_at(act[1])
                    if order is None or order.id not in market.blotter:
                        out = "noorder"
                    else:
                        if pre:
                            w.safe(pre, w, self, market, act, order)
                        out = target.place_order(order, force=bool(act[2])) if len(act) > 2 else target.place_order(order)
                elif k == "NOP":
                    out = "nop"
                elif k == "W":
                    # the strategy only consults its runner accounting (creates the context, places nothing)
                    rc = self.get_runner_context(market.market_id, act[1], act[2] if len(act) > 2 else 0)
                    out = "watched:%d" % rc.live_trade_count
                else:
                    raise core.HarnessError("unknown action %r" % (act,))
            except core.HarnessError:
                raise
            except UserCodeError:
                # contained by flumine's strategy error handling (raise_errors False), like any bug in user code
                self.log.append((mi, tick, act, "usererror"))
                raise
            except FlumineException as e:
                out = "raise:" + type(e).__name__
            except Exception as e:  # unexpected: recorded, judged by the property
                out = "raise!:" + type(e).__name__ + ":" + str(e)[:80]
            self.log.append((mi, tick, act, out))
            post = w.hooks_get("post_action")
            if post and k not in ("TX", "TXR"):
                w.safe(post, w, self, market, act, order, out)
            return out

    class Auditor(BaseStrategy):
        """Added last: its callbacks mark 'end of tick' (all other strategies have acted)."""

        def __init__(self, world, **kw):
            super().__init__(**kw)
            self.world = world
            self.seen = []

        def check_market_book(self, market, market_book):
            return True

        def process_market_book(self, market, market_book):
            w = self.world
            self.seen.append((market.market_id, market_book.publish_time_epoch))
            w.tick_no += 1
            cb = w.hooks_get("tick_end")
            if cb:
                w.safe(cb, w, market, market_book)

        def process_closed_market(self, market, market_book):
            w = self.world
            cb = w.hooks_get("closed_end")
            if cb:
                w.safe(cb, w, market, market_book)

    return Scripted, Auditor


_CLASSES = None


def classes():
    global _CLASSES
    if _CLASSES is None:
        _CLASSES = make_strategy_classes()
    return _CLASSES


class SimWorld:
    """One fresh simulated world; run() executes the whole history through FlumineSimulation.run()."""

    def __init__(
        self,
        markets,  # list of (MarketSpec, ticks)
        strategies,  # list of dict(script=..., kw=..., markets=[idx], client=0, name=...)
        hooks=None,
        cfg=None,
        n_clients=1,
        client_kw=None,
        event_processing=False,
        event_groups=None,
        listener_kwargs=None,
        auditor=True,
        observe_mw=True,
        flumine_setup=None,
    ):
        self.markets_in = markets
        self.strategies_in = strategies
        self.hooks = hooks
        self.cfg = cfg or {}
        self.n_clients = n_clients
        self.client_kw = client_kw or {}
        self.event_processing = event_processing
        self.event_groups = event_groups
        self.listener_kwargs = listener_kwargs
        self.want_auditor = auditor
        self.observe_mw = observe_mw
        self.flumine_setup = flumine_setup
        self.errors = []
        self.closed_calls = []
        self.packages = []  # (package, phase) at process_order_package
        self.executed = []  # packages at execution.handler
        self.tick_no = -1
        self.status_cb = None
        self.trade_status_cb = None
        self.market_index = {}
        self.pts = {}
        self.run_exception = None

    # hooks helper
    def hooks_get(self, name):
        h = self.hooks
        return getattr(h, name, None) if h is not None else None

    def safe(self, cb, *a):
        try:
            return cb(*a)
        except Exception:
            self.errors.append(traceback.format_exc())

    def build(self):
        from flumine import FlumineSimulation, clients
        from flumine.markets.middleware import Middleware

        install_hooks()
        Scripted, Auditor = classes()
        d = os.path.join(core.scratch_dir(), "w")
        os.makedirs(d, exist_ok=True)
        self.files = []
        for i, (spec, ticks) in enumerate(self.markets_in):
            lines, pts = spec.gen(ticks)
            path = os.path.join(d, spec.market_id)
            with open(path, "w") as f:
                f.write("\n".join(lines) + "\n")
            self.files.append(path)
            self.market_index[spec.market_id] = i
            self.pts[spec.market_id] = pts
        self.clients = []
        for i in range(self.n_clients):
            kw = dict(username="sim%d" % i)
            ck = self.client_kw.get(i, self.client_kw) if isinstance(self.client_kw, dict) and all(
                isinstance(k, int) for k in self.client_kw
            ) else self.client_kw
            kw.update(ck or {})
            self.clients.append(clients.SimulatedClient(**kw))
        world = self
        if getattr(self, "own_sim_middleware", False):
            # the user registers a subclass of the simulation middleware BEFORE the first client is added
            # (documented extension point): it must stay the only one
            from flumine.markets.middleware import SimulatedMiddleware

            class OwnSimulatedMiddleware(SimulatedMiddleware):
                pass

            fw = self.framework = FlumineSimulation()
            fw.add_market_middleware(OwnSimulatedMiddleware())
            fw.add_client(self.clients[0])
        else:
            fw = self.framework = FlumineSimulation(client=self.clients[0])
        if getattr(self, "early_user_middleware", False):
            # a user middleware registered before further clients are added (set-up order must not matter)
            class Early(Middleware):
                pass

            fw.add_market_middleware(Early())
        for c in self.clients[1:]:
            fw.add_client(c)
        self.recorder = Recorder(self)
        fw.add_logging_control(self.recorder)

        if self.observe_mw:

            class Obs(Middleware):
                def __call__(self, market):
                    cb = world.hooks_get("after_mw")
                    if cb:
                        world.safe(cb, world, market)

                def remove_market(self, market):
                    cb = world.hooks_get("mw_remove_market")
                    if cb:
                        world.safe(cb, world, market)

            fw.add_market_middleware(Obs())
        # capture packages handed to the framework / execution layer
        orig_pop = fw.process_order_package

        def process_order_package(package):
            world.packages.append(package)
            cb = world.hooks_get("package")
            if cb:
                world.safe(cb, world, package)
            return orig_pop(package)

        fw.process_order_package = process_order_package
        ex = fw.simulated_execution
        orig_handler = ex.handler

        def handler(package):
            world.executed.append(package)
            cb = world.hooks_get("pre_execute")
            if cb:
                world.safe(cb, world, package)
            r = orig_handler(package)
            cb = world.hooks_get("post_execute")
            if cb:
                world.safe(cb, world, package)
            return r

        ex.handler = handler
        self.strategies = []
        for i, s in enumerate(self.strategies_in):
            mk = s.get("markets")
            files = [self.files[j] for j in mk] if mk is not None else list(self.files)
            mf = {"markets": files}
            if self.event_processing:
                mf["event_processing"] = True
                if self.event_groups:
                    mf["event_groups"] = self.event_groups
            lk = s.get("listener_kwargs", self.listener_kwargs)
            if lk:
                mf["listener_kwargs"] = dict(lk)
            script = {}
            for k, acts in (s.get("script") or {}).items():
                if isinstance(k, str):
                    a, b = k.split(":")
                    k = (int(a), int(b))
                elif isinstance(k, int):
                    k = (0, k)
                script[tuple(k)] = acts
            cls = s.get("cls") or Scripted
            st = cls(
                self,
                i,
                script,
                client_idx=s.get("client", 0),
                market_filter=mf,
                name=s.get("name", "S%d" % i),
                **(s.get("kw") or {}),
            )
            self.strategies.append(st)
            fw.add_strategy(st)
        if self.want_auditor:
            mf = {"markets": list(self.files)}
            if self.event_processing:
                mf["event_processing"] = True
                if self.event_groups:
                    mf["event_groups"] = self.event_groups
            if self.listener_kwargs:
                mf["listener_kwargs"] = dict(self.listener_kwargs)
            self.auditor = Auditor(self, market_filter=mf, name="AUDITOR")
            fw.add_strategy(self.auditor)
        if self.flumine_setup:
            self.flumine_setup(self)
        st_cb = self.hooks_get("status")
        if st_cb:
            self.status_cb = lambda order, prev, new, site: st_cb(self, order, prev, new, site)
        tst_cb = self.hooks_get("trade_status")
        if tst_cb:
            self.trade_status_cb = lambda trade, prev, new, site: tst_cb(self, trade, prev, new, site)
        return self

    def run(self, raise_harness=True):
        global _CUR
        real_dt = _dt.datetime
        with core.owned_config(**self.cfg):
            self.build()
            _CUR = self
            try:
                self.framework.run()
            except core.HarnessError:
                raise
            except Exception as e:
                self.run_exception = e
                self.run_traceback = traceback.format_exc()
            finally:
                _CUR = None
                self.datetime_restored = _dt.datetime is real_dt
                _dt.datetime = real_dt
        if self.errors and raise_harness:
            raise core.HarnessError("hook error:\n" + self.errors[0])
        return self

    # ---- views ---------------------------------------------------------------------
    def market(self, i=0):
        mid = self.markets_in[i][0].market_id
        return self.framework.markets.markets.get(mid)

    def all_orders(self, i=0):
        m = self.market(i)
        return list(m.blotter) if m else []


# --------------------------------------------------------------------------------------
# canonical state (used only for deduplication; private fields read defensively)


class CanonUnavailable(Exception):
    pass


def _r(x):
    return round(x, 4) if isinstance(x, float) else x


class UserCodeError(RuntimeError):
    """raised by the scripted strategy on purpose (a bug in user code)"""


def canon_order(o, index_of, now):
    s = o.simulated
    ot = o.order_type
    try:
        priv = (_r(s._piq), s._bsp_reconciled, s.market_version)
    except AttributeError as e:
        raise CanonUnavailable(str(e))
    return (
        o.side,
        o.selection_id,
        o.handicap,
        ot.ORDER_TYPE.name,
        _r(getattr(ot, "price", None)),
        _r(getattr(ot, "size", None)),
        _r(getattr(ot, "liability", None)),
        getattr(ot, "persistence_type", None),
        getattr(ot, "time_in_force", None),
        _r(getattr(ot, "min_fill_size", None)),
        o.status.name if o.status else None,
        o.complete,
        o.bet_id is not None,
        tuple(sorted((k, _r(v)) for k, v in o.update_data.items())),
        o.market_version,
        _r(s.size_matched),
        _r(s.size_cancelled),
        _r(s.size_lapsed),
        _r(s.size_voided),
        tuple((_r(p), _r(z)) for _, p, z in s.matched),
        priv,
        o.runner_status,
        index_of.get(id(o.trade)),
        len(o.responses.cancel_responses),
        len(o.responses.update_responses),
        o.violation_msg is not None,
    )


def canon_world(w):
    """Canonical, id-free description of everything the future of the run can depend on."""
    fw = w.framework
    now = None
    from flumine import config

    now = config.current_time
    out = []
    for mi, (spec, _) in enumerate(w.markets_in):
        m = fw.markets.markets.get(spec.market_id)
        if m is None:
            out.append(None)
            continue
        orders = list(m.blotter)
        oidx = {id(o): i for i, o in enumerate(orders)}
        trades = []
        tidx = {}
        for o in orders:
            if id(o.trade) not in tidx:
                tidx[id(o.trade)] = len(trades)
                trades.append(o.trade)
        try:
            live = tuple(oidx.get(id(o)) for o in m.blotter._live_orders)
        except AttributeError as e:
            raise CanonUnavailable(str(e))
        ords = tuple(canon_order(o, tidx, now) for o in orders)
        trs = tuple(
            (
                t.status.name,
                t.pending_orders,
                tuple(oidx.get(id(o), -1) for o in t.orders),
                tuple(s.name for s in t.status_log[-3:]),
            )
            for t in trades
        )
        ctxs = []
        for st in fw.strategies:
            for key, rc in sorted(st._invested.items(), key=lambda kv: repr(kv[0])):
                if key[0] != spec.market_id:
                    continue
                tid = {t.id: i for i, t in enumerate(trades)}
                ctxs.append(
                    (
                        st.name,
                        key[1:],
                        tuple(tid.get(t, -1) for t in rc.trades),
                        tuple(tid.get(t, -1) for t in rc.live_trades),
                        _r((now - rc.datetime_last_placed).total_seconds())
                        if rc.datetime_last_placed
                        else None,
                        _r((now - rc.datetime_last_reset).total_seconds())
                        if rc.datetime_last_reset
                        else None,
                    )
                )
        mb = m.market_book
        book = None
        if mb is not None:
            book = (
                mb.status,
                mb.version,
                mb.inplay,
                mb.bet_delay,
                mb.bsp_reconciled,
                tuple(
                    (
                        r.selection_id,
                        r.handicap,
                        r.status,
                        r.adjustment_factor,
                        tuple((x["price"], x["size"]) for x in r.ex.available_to_back),
                        tuple((x["price"], x["size"]) for x in r.ex.available_to_lay),
                        tuple(sorted((x["price"], x["size"]) for x in r.ex.traded_volume)),
                        getattr(r.sp, "actual_sp", None) if not isinstance(r.sp, list) else None,
                    )
                    for r in mb.runners
                ),
            )
        out.append((ords, trs, live, tuple(ctxs), book, m.closed, tuple(m.orders_cleared), tuple(m.market_cleared)))
    # pending packages
    pk = []
    try:
        hq = list(fw.handler_queue)
    except TypeError as e:
        raise CanonUnavailable(str(e))
    for p in hq:
        m = fw.markets.markets.get(p.market_id)
        orders = list(m.blotter) if m else []
        oidx = {id(o): i for i, o in enumerate(orders)}
        pk.append(
            (
                p.package_type.name,
                p.market_id,
                tuple(oidx.get(id(o), -1) for o in p._orders),
                _r((now - p._time_created).total_seconds()),
                _r(p.simulated_delay),
                p._market_version,
            )
        )
    mw = []
    for mware in fw._market_middleware:
        rr = getattr(mware, "_runner_removals", None)
        if rr is not None:
            mw.append(tuple(rr))
    cl = []
    for c in fw.clients:
        for ctl in c.trading_controls:
            if hasattr(ctl, "transaction_count"):
                cl.append(
                    (
                        ctl.transaction_count,
                        ctl.failed_transaction_count,
                        ctl.current_transaction_count,
                        ctl.current_failed_transaction_count,
                        # when the hourly counters restart next (None until the control was first consulted)
                        str(getattr(ctl, "_next_hour", None)),
                    )
                )
    # the driver's own index-addressed memory (orders / trades an action letter can name), including orders
    # that were refused and therefore never reached a blotter
    where = {}
    twhere = {}
    for mi, (spec, _) in enumerate(w.markets_in):
        m = fw.markets.markets.get(spec.market_id)
        if m is None:
            continue
        for i, o in enumerate(m.blotter):
            where[id(o)] = (mi, i)
            twhere.setdefault(id(o.trade), (mi, len([1 for k in twhere.values() if k[0] == mi])))
    drv = []
    for st in fw.strategies:
        known = getattr(st, "known", None)
        if known is None:
            continue
        ko = tuple(where[id(o)] if id(o) in where else ("off", canon_order(o, twhere, now)) for o in known)
        kt = tuple(
            twhere[id(t)]
            if id(t) in twhere
            else ("off", t.status.name, t.pending_orders, len(t.orders), tuple(known.index(o) if o in known else -1 for o in t.orders))
            for t in getattr(st, "trades_known", [])
        )
        drv.append((ko, kt))
    return (tuple(out), tuple(pk), tuple(mw), tuple(cl), tuple(drv))


# --------------------------------------------------------------------------------------
# explorers


def enumerate_deviation_histories(horizon, k, default_tick, alphabet):
    """All histories of `horizon` ticks that differ from the default tick in at most k positions."""
    for n in range(0, k + 1):
        for pos in itertools.combinations(range(horizon), n):
            for devs in itertools.product(alphabet, repeat=n):
                h = [default_tick] * horizon
                for p, d in zip(pos, devs):
                    h[p] = d
                yield h


def bfs(run_one, alphabet, depth, report, label="bfs", dedup=True, cap_states=None, prefix=None):
    """Level-synchronous BFS over histories (lists of alphabet letters). run_one(history) must return
    dict(canon=<hashable or None>, violations=[...], counts={...}, outcome=<hashable>).
    Every history of length <= depth whose every proper prefix is a first representative of its
    canonical state is executed; returns the number of distinct states."""
    seen = set()
    frontier = [list(prefix or [])]
    total_states = 0
    for level in range(1, depth + 1):
        jobs = [h + [a] for h in frontier for a in alphabet]
        results = core.pmap(run_one, jobs)
        nxt = []
        new_states = 0
        for h, r in zip(jobs, results):
            report.transitions += 1
            report.traces += 1
            report.add_violations(r.get("violations"))
            report.merge_counts(r.get("counts"))
            if r.get("outcome") is not None:
                report.outcomes.add(r["outcome"])
            c = r.get("canon")
            if not dedup or c is None:
                nxt.append(h)
                new_states += 1
                continue
            if c not in seen:
                seen.add(c)
                nxt.append(h)
                new_states += 1
        total_states += new_states
        report.per_level.append(
            dict(mode=label, level=level, executed=len(jobs), new_states=new_states)
        )
        if level <= 2 and nxt:
            report.sample({"mode": label, "history": nxt[len(nxt) // 2]})
        frontier = nxt
        if cap_states and len(frontier) > cap_states:
            report.caps_hit.append("%s: frontier %d > cap %d at level %d" % (label, len(frontier), cap_states, level))
            frontier = frontier[:cap_states]
        if not frontier:
            break
    if frontier:
        report.sample({"mode": label, "history": frontier[-1]})
    report.states += total_states
    return total_states
