#!/usr/bin/env python3
"""Write /verif/COVERAGE.md from the committed evidence files (what the last run of each check covered)."""
import json, glob, os
HERE = os.path.dirname(os.path.dirname(os.path.abspath(__file__)))
rows = []
for f in sorted(glob.glob(os.path.join(HERE, "evidence", "C*.json"))):
    e = json.load(open(f)); c = e["coverage"]
    rows.append((e["property_id"], e["tier"], c.get("engine", ""), c["states"], c["transitions"], c["traces_validated_against_impl"], c.get("distinct_outcomes", 0), sum(c.get("clauses", {}).values()), len(c.get("known_findings_seen", [])), "yes" if c.get("exhaustive") else "CAPPED", "%.0f" % e["wall_s"]))
with open(os.path.join(HERE, "COVERAGE.md"), "w") as f:
    f.write("# What the last committed run of each check covered\n\n| property | tier | engine | states | transitions | complete real executions | distinct outcomes | clause evaluations | known-finding keys seen | exhaustive within bounds | wall s |\n|---|---|---|---|---|---|---|---|---|---|---|\n")
    for r in rows:
        f.write("| " + " | ".join(str(x) for x in r) + " |\n")
print("wrote COVERAGE.md (%d rows)" % len(rows))
