#!/usr/bin/env python3
"""Confirm a seeded change (suite green + demo fails with / passes without, in a scratch worktree),
then run the named checks against it in /repo and undo it.  Results go to /verif/seeded/<id>/meta.json.

usage: tools/mutant.py <src dir with patch.diff demo.py meta.json> <seed id> <property> [check ids...] [--tier quick]"""
import json
import os
import re
import shutil
import subprocess
import sys
import time

VERIF = os.path.dirname(os.path.dirname(os.path.abspath(__file__)))
PY = "/venv/bin/python"


def sh(cmd, cwd=None, timeout=3600, env=None):
    p = subprocess.run(cmd, shell=True, cwd=cwd, capture_output=True, text=True, timeout=timeout, env=env)
    return p.returncode, p.stdout + p.stderr


def confirm(src):
    wt = "/tmp/mut/scratch-%d" % os.getpid()
    sh("git -C /repo worktree remove --force %s" % wt)
    rc, out = sh("git -C /repo worktree add -q %s HEAD" % wt)
    assert rc == 0, out
    res = {}
    try:
        rc, out = sh("git apply %s/patch.diff" % os.path.abspath(src), cwd=wt)
        res["applies"] = rc == 0
        if rc != 0:
            res["apply_error"] = out[-400:]
            return res
        rc, out = sh("%s -m pytest -q -p no:cacheprovider -x --deselect tests/test_integration.py::IntegrationTest::test_event_processing --deselect tests/test_integration.py::IntegrationTest::test_simulation_multi_clients --deselect tests/test_integration.py::IntegrationTest::test_simulation_pro --deselect tests/test_utils.py::UtilsTest::test_get_file_event_id --deselect tests/test_utils.py::UtilsTest::test_get_file_event_id_tuple" % PY, cwd=wt)
        m = re.search(r"(\d+) passed", out)
        res["suite"] = out.strip().splitlines()[-1]
        res["suite_green"] = rc == 0 and m is not None and int(m.group(1)) == 976
        # one directory below the root, as the authors ran it (some demos find the root from __file__), root on the path
        os.makedirs(os.path.join(wt, "_m"), exist_ok=True)
        shutil.copy(os.path.join(src, "demo.py"), os.path.join(wt, "_m", "demo.py"))
        denv = dict(os.environ, PYTHONPATH=wt)
        rc, out = sh("%s _m/demo.py" % PY, cwd=wt, timeout=600, env=denv)
        res["demo_with"] = rc
        sh("git checkout -- flumine", cwd=wt)
        rc, out = sh("%s _m/demo.py" % PY, cwd=wt, timeout=600, env=denv)
        res["demo_without"] = rc
    finally:
        sh("git -C /repo worktree remove --force %s" % wt)
    return res


def run_checks(src, checks, tier):
    """checks run against a scratch worktree of /repo HEAD with the patch applied (VERIF_REPO), so /repo itself and
    anything else running against it are left alone; evidence written by these runs is discarded."""
    wt = "/tmp/mut/run-%d" % os.getpid()
    sh("git -C /repo worktree remove --force %s" % wt)
    rc, out = sh("git -C /repo worktree add -q %s HEAD" % wt)
    assert rc == 0, out
    results = {}
    evdir = "/tmp/mut/ev-%d" % os.getpid()
    try:
        rc, out = sh("git apply %s/patch.diff" % os.path.abspath(src), cwd=wt)
        assert rc == 0, out
        for c in checks:
            t = time.time()
            env = dict(os.environ)
            env["VERIF_REPO"] = wt
            env["VERIF_OUT"] = "/tmp/mut/out-%d-%s" % (os.getpid(), c)
            os.makedirs(env["VERIF_OUT"] + "/evidence", exist_ok=True)
            # keep the committed evidence file: save and restore around the run
            ev = os.path.join(VERIF, "evidence", "%s.json" % c)
            saved = open(ev).read() if os.path.exists(ev) else None
            rc, out = sh("./check %s --tier %s" % (c, tier), cwd=VERIF, env=env, timeout=7200)
            if saved is not None and open(ev).read() != saved:
                open(ev, "w").write(saved)
            shutil.rmtree(env["VERIF_OUT"], ignore_errors=True)
            keys = re.findall(r"clause=\S+ key=(\S+)", out)
            results[c] = dict(exit=rc, wall_s=round(time.time() - t, 1), violation_keys=keys[:8], harness="HARNESS" in out, tail=out.strip().splitlines()[-3:][0][:300] if out.strip() else "")
    finally:
        sh("git -C /repo worktree remove --force %s" % wt)
    return results


def main():
    args = [a for a in sys.argv[1:] if not a.startswith("--")]
    tier = "quick"
    if "--tier" in sys.argv:
        tier = sys.argv[sys.argv.index("--tier") + 1]
        args = [a for a in args if a != tier]
    src, sid, prop = args[0], args[1], args[2]
    checks = args[3:] or [prop]
    meta = json.load(open(os.path.join(src, "meta.json")))
    meta.setdefault("files", meta.get("files"))
    conf = confirm(src)
    print("confirm:", conf)
    ok = conf.get("applies") and conf.get("suite_green") and conf.get("demo_with") not in (0, None) and conf.get("demo_without") == 0
    dst = os.path.join(VERIF, "seeded", sid)
    res = {}
    if ok:
        res = run_checks(src, checks, tier)
        for c, r in res.items():
            print("  check %s: exit=%s %.0fs keys=%s %s" % (c, r["exit"], r["wall_s"], r["violation_keys"][:3], "HARNESS!" if r["harness"] else ""))
        os.makedirs(dst, exist_ok=True)
        if os.path.abspath(src) != os.path.abspath(dst):
            shutil.copy(os.path.join(src, "patch.diff"), dst)
            shutil.copy(os.path.join(src, "demo.py"), dst)
        old = {}
        if os.path.exists(os.path.join(dst, "meta.json")):
            old = json.load(open(os.path.join(dst, "meta.json")))
        runs = old.get("check_runs", [])
        head = subprocess.run("git -C /repo rev-parse --short HEAD", shell=True, capture_output=True, text=True).stdout.strip()
        runs.append(dict(repo_head=head, tier=tier, results=res))
        out = dict(
            id=sid,
            property=prop,
            summary=meta.get("summary"),
            needs=meta.get("needs"),
            files=meta.get("files"),
            confirmed=conf,
            what_i_ran="scratch worktree of /repo HEAD: git apply patch.diff; pytest (976 stable tests); demo.py with and without the patch; then git -C /repo apply, ./check <ids>, git -C /repo checkout -- .",
            check_runs=runs,
            detected_by=sorted({c for run in runs for c, r in run["results"].items() if r["exit"] == 1}),
        )
        json.dump(out, open(os.path.join(dst, "meta.json"), "w"), indent=1)
    else:
        print("NOT KEPT:", conf)
    return 0


if __name__ == "__main__":
    sys.exit(main())
