#!/usr/bin/env python3
"""Regenerate /verif/seeded/RESULTS.md from the seeded/*/meta.json files."""
import glob, json, os
HERE = os.path.dirname(os.path.dirname(os.path.abspath(__file__)))
rows = []
for f in sorted(glob.glob(os.path.join(HERE, "seeded", "*", "meta.json"))):
    d = json.load(open(f))
    last = {}
    first_miss = []
    for n, run in enumerate(d.get("check_runs", [])):
        for c, r in run["results"].items():
            if r["exit"] == 1:
                last.setdefault(c, r["violation_keys"][:1])
            elif r["exit"] == 0 and c == d["property"] and c not in last:
                first_miss.append(n)
    rows.append((d["id"], d["property"], (d.get("summary") or "").replace("|", "/")[:160], (d.get("needs") or "").replace("|", "/")[:160], ", ".join(sorted(d.get("detected_by", []))) or "NOT DETECTED", "yes" if first_miss else "no", "; ".join("%s: %s" % (c, k[0] if k else "") for c, k in sorted(last.items()))[:200]))
with open(os.path.join(HERE, "seeded", "RESULTS.md"), "w") as f:
    f.write("# Seeded changes (independent sub-agents) and which checks report them\n\n")
    f.write("Every change kept here was confirmed in a scratch worktree: the pinned suite stays green, the demonstration fails with the change and passes without it. `missed at first` = the property's own check did not report it on the first run and was strengthened afterwards.\n\n")
    f.write("| id | property | change | needs | detected by | missed at first | first violation key |\n|---|---|---|---|---|---|---|\n")
    for r in rows:
        f.write("| " + " | ".join(r) + " |\n")
print("wrote RESULTS.md with %d rows" % len(rows))
