"""Child process of C14.e: runs a fixed set of order-placing simulations and prints a normalised
ledger as JSON.  The parent runs it under different PYTHONHASHSEED values and wall-clock offsets
(C14_CLOCK_OFFSET seconds) and demands byte-identical output."""
import datetime
import json
import os
import sys
import time

OFFSET = float(os.environ.get("C14_CLOCK_OFFSET", "0"))
if OFFSET:
    _real_dt = datetime.datetime
    _real_time = time.time

    class ShiftedDateTime(_real_dt):
        @classmethod
        def utcnow(cls):
            return _real_dt.utcnow() + datetime.timedelta(seconds=OFFSET)

        @classmethod
        def now(cls, tz=None):
            return _real_dt.now(tz) + datetime.timedelta(seconds=OFFSET)

    datetime.datetime = ShiftedDateTime
    time.time = lambda: _real_time() + OFFSET

sys.path[:0] = [os.environ.get("VERIF_REPO", "/repo"), os.path.dirname(os.path.dirname(os.path.abspath(__file__)))]
from mc import core, simx  # noqa: E402
from props import simlife as L  # noqa: E402

core.setup_logging()
core.assert_repo()


def ledger(w):
    out = []
    for mi in range(len(w.markets_in)):
        m = w.market(mi)
        if m is None:
            out.append(None)
            continue
        rows = []
        for o in m.blotter:
            s = o.simulated
            rows.append(
                [
                    o.trade.strategy.name,
                    o.selection_id,
                    o.side,
                    o.order_type.ORDER_TYPE.name,
                    getattr(o.order_type, "price", None),
                    getattr(o.order_type, "size", None),
                    o.bet_id,
                    [x.name for x in o.status_log],
                    [s.size_matched, s.size_cancelled, s.size_lapsed, s.size_voided, o.size_remaining, s.average_price_matched],
                    [list(f) for f in s.matched],
                    str(o.date_time_created),
                    str(o.date_time_execution_complete),
                    str(o.responses.date_time_placed),
                    o.profit,
                    o.violation_msg,
                ]
            )
        out.append(rows)
    refused = []
    for st in w.strategies:
        refused.append([[e[1], str(e[3])] for e in st.log])
    # times the runner accounting recorded (cool-downs are measured from them): simulated time, like every other
    contexts = sorted(getattr(w, "_ctx", []))
    cleared = [[cm.market_id, cm.profit, cm.bet_count, cm.commission] for e in w.recorder.events if type(e).__name__ == "ClearedMarketsEvent" for cm in e.event.orders]
    seen = [[st.name, [[m, p] for (m, p) in st.seen]] for st in w.strategies]
    return dict(orders=out, log=refused, cleared=cleared, contexts=contexts, seen=seen)


def kw(**o):
    d = dict(max_order_exposure=None, max_selection_exposure=None, max_live_trade_count=5)
    d.update(o)
    return d


SC = {}


def sc(f):
    SC[f.__name__] = f
    return f


def T(evs, dt=200):
    return [[dt, L.EVENTS[e] if isinstance(e, str) else e] for e in evs]


@sc
def pair_shared_prices():
    a = {(0, 0): [L.P("PBn")], (0, 1): [L.P("XBp")], (0, 3): [["C", 0, 2.0]]}
    b = {(0, 0): [L.P("PL")], (0, 2): [L.P("PB")], (0, 3): [["R", 0, 2.3]]}
    return simx.SimWorld([(simx.MarketSpec(book0=L.BOOK0), T(["T21", "T22", "T21", "T2x", "Q", "CL"]))], [dict(script=a, name="A", kw=kw()), dict(script=b, name="B", kw=kw())])


@sc
def removal_inplay_close():
    a = {(0, 0): [L.P("PBn"), L.P("X2"), L.P("M2")], (0, 1): [L.P("MOC"), L.P("LOC")], (0, 2): [["C", 0, 2.0]]}
    return simx.SimWorld([(simx.MarketSpec(book0=L.BOOK0), T(["T21", "Q", "RM2", "IP", "T21", "CL"]))], [dict(script=a, kw=kw())])


@sc
def event_group_two_markets():
    a = {(0, 0): [L.P("PBn")], (1, 0): [L.P("XBp")], (0, 2): [["R", 0, 2.3]], (1, 2): [["C", 0, None]]}
    m1 = (simx.MarketSpec(market_id="1.100000001", book0=L.BOOK0), T(["T21", "T22", "SUS", "OPN", "CL"], 150))
    m2 = (simx.MarketSpec(market_id="1.100000002", book0=L.BOOK0, t0=simx.T0 + 50), T(["T22", "T21", "T2x", "CL2"], 150))
    return simx.SimWorld([m1, m2], [dict(script=a, kw=kw())], event_processing=True)


@sc
def market_exposure_boundary():
    """three selections, BACK sizes 0.1/0.2/0.3, market limit exactly the decimal sum: the float sum
    depends on the order in which runners are visited."""
    book = dict(L.BOOK0)
    book[3] = {"atb": [[5.0, 10]], "atl": [[5.5, 10]]}
    spec = simx.MarketSpec(book0=book, sels=((1, 0), (2, 0), (3, 0)))
    acts0 = [["P", dict(sel=1, side="BACK", price=2.0, size=0.1)], ["P", dict(sel=2, side="BACK", price=3.0, size=0.2)]]
    acts1 = [["P", dict(sel=3, side="BACK", price=5.0, size=0.3)]]
    acts2 = [["P", dict(sel=1, side="BACK", price=2.0, size=0.1)], ["P", dict(sel=3, side="BACK", price=5.0, size=0.7)]]
    return simx.SimWorld(
        [(spec, T(["Q", "Q", "Q", "CL"]))],
        [dict(script={(0, 0): acts0, (0, 1): acts1, (0, 2): acts2}, kw=kw(max_market_exposure=0.6, max_live_trade_count=9))],
        client_kw=dict(min_bet_validation=False),
    )


@sc
def two_clients_three_strategies():
    s = [
        dict(script={(0, 0): [L.P("PBn")], (0, 2): [L.P("FOK")]}, name="A", client=0, kw=kw()),
        dict(script={(0, 0): [L.P("PL")], (0, 1): [["C", 0, 2.0]]}, name="B", client=1, kw=kw()),
        dict(script={(0, 1): [L.P("P2"), L.P("X2")]}, name="C", client=0, kw=kw()),
    ]
    return simx.SimWorld([(simx.MarketSpec(book0=L.BOOK0), T(["T21", "T3", "T2x", "IP", "CL2"]))], s, n_clients=2)


@sc
def isolation_off():
    a = {(0, 0): [L.P("PBn"), L.P("PB")]}
    b = {(0, 0): [L.P("PBn")], (0, 1): [L.P("PL")]}
    return simx.SimWorld([(simx.MarketSpec(book0=L.BOOK0), T(["T21", "T22", "T2x", "T21", "CL"]))], [dict(script=a, name="A", kw=kw()), dict(script=b, name="B", kw=kw())], cfg=dict(simulated_strategy_isolation=False))


@sc
def limits_and_cooldowns():
    a = {(0, 0): [L.P("XB", trade_kw=dict(reset_seconds=1.5))], (0, 1): [L.P("XB", trade_kw=dict(reset_seconds=1.5))], (0, 3): [L.P("PBn", trade_kw=dict(reset_seconds=1.5))], (0, 4): [L.P("PBn")]}
    return simx.SimWorld([(simx.MarketSpec(book0=L.BOOK0), T(["Q", "Q", "T21", "Q", "SUS", "CL"], 500))], [dict(script=a, kw=dict(max_live_trade_count=1, max_trade_count=3))])


@sc
def listener_filters():
    """strategies with listener filters (time to start, in-play, in-play window) on one market"""
    ticks = [[3000, L.EVENTS["Q"]], [3000, L.EVENTS["Q"]], [3000, L.EVENTS["IP"]], [3000, L.EVENTS["Q"]], [3000, L.EVENTS["Q"]], [3000, L.EVENTS["CL"]]]
    s = [
        dict(script={}, name="all", kw=kw()),
        dict(script={}, name="s2s", kw=kw(), listener_kwargs={"seconds_to_start": 5}),
        dict(script={}, name="pre", kw=kw(), listener_kwargs={"inplay": False, "seconds_to_start": 8}),
        dict(script={}, name="ip", kw=kw(), listener_kwargs={"inplay": True, "max_inplay_seconds": 4}),
    ]
    return simx.SimWorld([(simx.MarketSpec(book0=L.BOOK0, market_time_offset_s=10), ticks)], s)


@sc
def sequential_three_markets():
    ms = []
    script = {}
    for i in range(3):
        ms.append((simx.MarketSpec(market_id="1.10000000%d" % (i + 1), event_id="3000000%d" % i, book0=L.BOOK0, t0=simx.T0 + i * 3600_000), T(["T21", "RM2", "T22", "CL"])))
        script[(i, 0)] = [L.P("PBn"), L.P("X2")]
        script[(i, 1)] = [L.P("XBp")]
    return simx.SimWorld(ms, [dict(script=script, kw=kw())])


class Cap:
    """records the runner accounting of every strategy when a market closes (it is released afterwards)"""

    def closed(self, w, st, market, mb):
        for k, rc in getattr(st, "_invested", {}).items():
            if k[0] == market.market_id:
                w._ctx.append([st.name, list(map(str, k)), str(rc.datetime_last_placed), str(rc.datetime_last_reset), rc.trade_count, rc.live_trade_count])


def main():
    res = {}
    # what a process simulated earlier is part of "the process" a result must not depend on: the scenarios run
    # forwards, backwards or rotated (the output is keyed and sorted by name)
    items = list(SC.items())
    order = os.environ.get("C14_ORDER", "fwd")
    if order == "rev":
        items.reverse()
    elif order == "rot":
        items = items[4:] + items[:4]
    for name, f in items:
        w = f()
        w._ctx = []
        if w.hooks is None:
            w.hooks = Cap()
        w.run()
        if w.run_exception is not None:
            res[name] = "EXC " + repr(w.run_exception)
        else:
            res[name] = ledger(w)
    sys.stdout.write(json.dumps(res, sort_keys=True))


main()
