#!/usr/bin/env python3
"""Validate MANIFEST.json and evidence files against the schemas (run with python3-vt)."""
import glob, json, sys
import jsonschema

ok = True
man = json.load(open("/verif/MANIFEST.json"))
try:
    jsonschema.validate(man, json.load(open("/root/.vp/MANIFEST.schema.json")))
    print("MANIFEST ok: %d checks, %d not_applicable" % (len(man["checks"]), len(man.get("not_applicable", []))))
except jsonschema.ValidationError as e:
    print("MANIFEST INVALID:", e.message); ok = False
props = [json.loads(l)["id"] for l in open("/verif/properties.jsonl")]
claimed = [c["property_id"] for c in man["checks"]]
na = [c["property_id"] for c in man.get("not_applicable", [])]
for p in props:
    if (p in claimed) == (p in na):
        print("property %s must be exactly one of claimed / not_applicable" % p); ok = False
es = json.load(open("/root/.vp/EVIDENCE.schema.json"))
for f in sorted(glob.glob("/verif/evidence/*.json")):
    try:
        jsonschema.validate(json.load(open(f)), es)
    except jsonschema.ValidationError as e:
        print("EVIDENCE INVALID %s: %s" % (f, e.message)); ok = False
print("evidence files:", len(glob.glob("/verif/evidence/*.json")))
sys.exit(0 if ok else 1)
