#!/usr/bin/env python3
"""Regenerate /verif/MANIFEST.json from the table below (single source of truth)."""
import json
import os

HERE = os.path.dirname(os.path.dirname(os.path.abspath(__file__)))

# id -> dict(engine, technique, text, note, section)
CHECKS = {
    "C17": dict(
        engine="E3 gridx",
        technique="exhaustive finite-grid enumeration of the real helpers/control against an exact-arithmetic reference ladder",
        text="Complete enumeration of the finite input grids named by the property (every 0.001 in [0,1100], every tick, "
        "mid-point and float neighbour; 350 ticks x n in [-400,400]; all ladders; validation grids x 19 currencies) on the "
        "real functions and the real OrderValidation control, plus a slice through market.place_order in a real simulated run. "
        "Exhaustive within the grid, so any wrong band, rounding mode, clamp or threshold shows as a concrete input.",
        note="Trusts: Betfair increment table and min-stake rule restated in mc/refs.py; currency table from betfairlightweight; "
        "Betdaq cutoffs. Values off the grids are not covered.",
        section="6/C17",
    ),
    "C16": dict(
        engine="E3 gridx",
        technique="exhaustive enumeration of order multisets on real Blotter/BetfairOrder objects against a brute-force worst-case reference (all fill subsets x all winner sets)",
        text="Every multiset of <=3 (thorough 4) orders per selection from 88 real-order templates (both sides, classic/finest/line/LOC/MOC, "
        "matched splits, every status reachable through the public status methods), in live and simulated representation, each order in turn as "
        "exclusion, 9 templates as new_order, the same order as both; market level over 3 selections x winners 1..3 x extra runners. The reference "
        "enumerates fill subsets and winner sets instead of using flumine's closed form, so any wrong sign, side, filter or rounding shows up.",
        note="Trusts the brute-force reference in mc/refs.py and a pennies tolerance (0.005*matched+0.02). Sizes/prices outside the menu and >4 orders per selection are not covered.",
        section="6/C16",
    ),
    "C08": dict(
        engine="E3 gridx + E1 simx",
        technique="exhaustive enumeration of fill lists x settlement scenarios on real orders through the real closed-market processing, against an exact-arithmetic settlement reference; plus exhaustive small end-to-end simulated runs to a CLOSED update",
        text="Every multiset of <=3 fragments over 6 prices x 3 sizes x 17 settlement scenarios (win/place/each-way, dead heat 1..4, removed, unsettled) x "
        "LIMIT/LOC/MOC x both sides through Blotter.process_closed_market and order.profit, line markets with results below/equal/above/absent, exact BACK/LAY "
        "antisymmetry; and every set of <=2 (thorough 3) orders from a 9-order menu x market type x result vector x non-runner factor x clients/commission "
        "through a real simulated run ending in a CLOSED update, checking order.profit and the ClearedMarketsEvent payload per client.",
        note="Trusts the settlement rules restated in refs.ref_settle and a pennies tolerance; each-way dead heats and multi-winner dead heats are outside the statement's domain.",
        section="6/C08",
    ),
    "C05": dict(
        engine="E3 gridx + E1 simx",
        technique="exhaustive enumeration of books x placements executed by the real simulated execution inside real runs, safety predicates evaluated on every fragment",
        text="Every book of 0-3 levels over 5 ladder prices x level sizes {1,2,5} x best-price-execution on/off, and against each one every "
        "(side x 7 limits x 2 sizes x 6 TIF/min-fill variants) placed through the public API and executed by the real SimulatedExecution; "
        "resting leftovers continued with every traded-volume sequence up to length 2 (thorough 3). Checks limit/VWAP, per-level availability against "
        "the book the placement executed against, FOK all-or-nothing/never rests/complete at next callback, and the BPE lapse.",
        note="Trusts: FOK VWAP tolerance 0.005; prices/sizes outside the menu not covered; maximal fill is not demanded.",
        section="6/C05",
    ),
    "C04": dict(
        engine="E1 simx",
        technique="explicit-state BFS with canonical-state dedup + deviation-bounded enumeration of histories, each executed as a complete real FlumineSimulation.run(); ledger invariants at every strategy callback",
        text="All histories of <=3 (thorough 4) ticks over an alphabet of ~40 letters (market events: trades at/through/behind the limit, ladder change, suspend/re-open, turn in-play with SP, "
        "runner removal, close; actions: 14 limit-order flavours incl. FOK/persistence/market-version, full/partial/oversize cancel, replace, update) and all histories with <=2 (3) deviations over "
        "horizon 7, in fast (200 ms) and slow (100 ms: requests in flight across events) regimes, with best-price execution off and full-match mode; an independent bucket ledger is checked after "
        "the simulation middleware, in process_orders and at the end of every update.",
        note="Bounds: <=4 ticks dense / <=3 deviations sparse, <=3 orders, the menu's prices and sizes. Orders in VIOLATION (never sent) and the completion flag at the CLOSED update are outside.",
        section="6/C04",
    ),
    "C03": dict(
        engine="E1 simx",
        technique="explicit-state BFS with canonical-state dedup + deviation-bounded enumeration over the real simulated exchange; every _update_status call and every request judged against the lifecycle relation",
        text="Same exploration engine as C04 with a request-heavy alphabet (every request kind on two orders, valid and invalid arguments, two requests in one callback, requests issued together "
        "with the event that completes the order) in fast/slow/no-persistence regimes; every status change is recorded with its flumine call site and compared with the documented relation, every "
        "request is judged against the acceptance rule with a before/after snapshot, and finality of completed orders is watched at every callback.",
        note="Simulated exchange only so far (live Betfair/Betdaq doubles are served by the E2 checks C11/C12); bounds as in C04.",
        section="6/C03",
    ),
    "C10": dict(
        engine="E1 simx",
        technique="explicit-state BFS with canonical-state dedup + deviation-bounded enumeration per accounting configuration; runner/trade accounting recounted from the blotter after every update",
        text="Six configurations of (max_trade_count, max_live_trade_count, multi_order_trades, reset_seconds, place_reset_seconds) x histories of placements (new trade, same trade, inside `with trade:`, "
        "two per callback, replacement), fills, cancels, lapses, voids, failed placements with 0.5 s / 2 s spacing; live/trade counts, trade completion, limits and cool-downs at each accepted placement, "
        "and lock-out at each refused one, are judged from the real order states.",
        note="Orders added to an already COMPLETE trade and pending_orders trades are outside; simulated exchange only so far.",
        section="6/C10",
    ),
    "C15": dict(
        engine="E1 simx",
        technique="explicit-state BFS with canonical-state dedup + deviation-bounded enumeration; all blotter views compared with a shadow list after every update",
        text="Two strategies on two clients placing on two selections and a handicap line of one market: placements, replacements (new order objects under new bet ids), cancels, fills, removal, closure; "
        "after every update every view (strategy, strategy+selection+handicap, client, client+strategy, trade, bet id for replacements), the live list, the id/bet-id lookups and the status/matched filters "
        "are compared with a shadow list of accepted orders.",
        note="Simulation only so far; adoption from the order stream belongs to the E2 part.",
        section="6/C15",
    ),
    "C09": dict(
        engine="E1 simx",
        technique="exhaustive scenario product executed as complete real simulated runs (order state at removal x other-runner orders x factor x timing x market type x second market), before/after comparison at every update",
        text="Full product of 18 states of the order on the removed runner (pending, resting, partly/fully filled, partly/fully cancelled, FOK-killed, lapsed placement, cancel/update/replace in flight, "
        "MOC persistence, LOC, MOC) x 8 sets of orders on the other runners x factors {None,0,2.49,2.5,20,99} x removal plain/before/after turn in-play x WIN/PLACE/OTHER_PLACE/EACH_WAY, plus a second "
        "removal in the market and the same removal in a second market handled by the same framework instance sequentially and event-grouped; voiding, completion, price reduction, MOC liability scaling and "
        "exactly-once application are compared update by update.",
        note="Reduction threshold 2.5 applied to all market types as the code and statement do; Betfair's place-market threshold is not modelled.",
        section="6/C09",
    ),
    "C06": dict(
        engine="E1 simx",
        technique="exhaustive product of resting-order configurations x traded-volume update sequences, each a complete real run, against an independent traded-volume ledger (lone-order formula, Hall's condition, priority, isolation differential)",
        text="Side mode x queue at arrival {0,2,6} x every multiset of <=3 resting orders over 3 prices (1-2 strategies, late arrival) x every sequence of <=2 (thorough 3, partly 4) updates from 15-17 "
        "options (one/two/three levels, unchanged ladder, decreasing cumulative volume) x isolation on/off. The ledger is rebuilt from the generated stream lines, so halving, write-back of consumed volume, "
        "queue handling, sort order and per-strategy copies are all observable.",
        note="One runner, sizes 5, prices 2.0-2.2; simulation_available_prices=False as the statement requires.",
        section="6/C06",
    ),
    "C07": dict(
        engine="E1 simx",
        technique="exhaustive enumeration of update-spacing sequences around every latency boundary x request kind x latency/bet-delay configuration, each a complete real run; effect update compared with the reference rule, book identified by alternating liquidity",
        text="Every spacing sequence of <=3 (thorough 4, 5 for place/replace) updates over 14 gaps from 1 ms to 5 s incl. each default latency +-1 ms x {place, cancel, update, replace, place+cancel}, "
        "latency configs zero/large, bet delays 0/1/5 changing at a turn in-play between request and effect, and an event-grouped second market updating in between; checks the effect update, the book used "
        "(fragment stamp of the alternating-liquidity book), pending/in-flight behaviour against an undisturbed twin run, all timestamps and the clock seen by callbacks.",
        note="One request instant per run (at update 1); spacing values outside the menu are not covered.",
        section="6/C07",
    ),
    "C20": dict(
        engine="E1 simx",
        technique="exhaustive enumeration of update sequences around market closure (close, repeated close, re-open, never-open) x strategies x clients x orders x multi-market orderings, each a complete real run; callbacks, cleared events and flags counted against the generated data",
        text="Every sequence of <=4 (thorough 5) letters over {open update, trade, CLOSED, re-sent CLOSED definition, re-open} containing a close, with 0/1/3 orders, 1-2 clients and subscribed / "
        "unsubscribed strategies; a market whose first update is already CLOSED; 2-3 markets closing in every order sequentially and event-grouped, WIN and EACH_WAY. Per closing update the "
        "process_closed_market calls, the closing book and the orders' settlement fields are checked; per closure episode the ClearedOrdersMetaEvent / ClearedMarketsEvent counts; closed flag and reset on re-open; released state.",
        note="Simulation mode; the live-mode removal after one hour and recorder mode are not yet covered by a check (listed in DESIGN.md section 9).",
        section="6/C20",
    ),
    "C13": dict(
        engine="E1 simx",
        technique="exhaustive program-pair enumeration with a metamorphic oracle (ledger alone == ledger alongside, both registration orders) + exhaustive fault injection at every callback invocation of a run",
        text="All ordered pairs of 72 (thorough 104) strategy programs (placement from 8 templates, optional cancel / partial cancel / replace / second placement two updates later) x 3 market histories with trades at shared prices x both "
        "registration orders (and 2 clients), comparing the complete normalised ledger of a strategy with its solo run; and an exception (ValueError / FlumineException) injected at every invocation index of "
        "check_market_book, process_market_book, process_orders, process_new_market of either strategy and of a middleware, checking delivery to the others, middleware-before-strategies order, the C04/C10/C15 invariants and normal termination.",
        note="process_closed_market is not in the statement's list; sports-data, raw-data and custom-event callbacks of the live dispatch loop are not yet injected.",
        section="6/C13",
    ),
    "C14": dict(
        engine="E1 simx",
        technique="exhaustive enumeration of small file sets / event-group assignments / listener filters executed as real runs against a merge and filter specification; determinism by byte-comparing ledgers of fresh processes over a finite set of hash seeds and clock offsets",
        text="All file sets of 1-3 markets with update-time increment vectors over {0,1,2,3} ms (equal publish times across and inside markets), every assignment to events and event groups, event_processing on/off; "
        "listener filters inplay x seconds_to_start x max_inplay_seconds over 4 sequences with suspension / turn in-play; the clock seen in every callback; clock restoration also when a strategy raises with raise_errors; "
        "8 order-placing scenarios re-run in 12 (thorough 21) fresh processes with different PYTHONHASHSEED and wall-clock offsets.",
        note="Determinism is checked over a finite set of environments, not all; ids from uuid are excluded from the ledger.",
        section="6/C14",
    ),
    "C11": dict(
        engine="E2 livex",
        technique="stateless depth-first exploration with canonical-state dedup of every handler-granularity interleaving of requests, sends, replies, stream snapshots, exchange fills/lapses, single-call faults and a crash/restart, on the real live code against an exchange double; oracle at every quiescent state",
        text="8 scripts (place; place+cancel full/partial/twice; update; replace; two orders in one package; two strategies) x every interleaving of {next request, request send, reply apply, FIFO snapshot delivery, duplicate snapshot, fill half/all, lapse, async acceptance} "
        "x one call answered TIMEOUT (applied or not) / FAILURE x crash at every point with a fresh executable-only image (one strategy not re-added); at each quiescent state local orders, live list, trades, runner slots, adoption and restart accounting are compared with the exchange double's bet table.",
        note="Handler granularity (a request is applied at the exchange when sent and answered later); the exchange double implements the documented API contract only; six race findings are listed in known_findings.json.",
        section="6/C11",
    ),
    "C12": dict(
        engine="E2 livex + E1 simx",
        technique="exhaustive fault enumeration on the real execution handlers against an exchange double (per-instruction outcome assignments, report permutations/omissions, transport errors per attempt, orders completing between request and reply), plus simulated packages with the event arriving while in flight",
        text="For place/cancel/update/replace packages of 1-3 orders: every assignment of {SUCCESS, FAILURE x 3 codes, TIMEOUT, TIMEOUT-applied} to the instructions; every subset of the orders completed by the exchange before the send / between send and reply; cancel reports reversed and each missing; "
        "APIError / InvalidResponse / StatusCodeError / API error body on attempts 1-4 with the request applied or not; async placement; and simulated packages x 9 market events. After the request finished: no stranded status, no pending trade, transaction counts vs the double's call log, retries <= 3, reports on the right orders, no escaped exception.",
        note="Betdaq execution is outside (as stated). Packages of <=3 orders.",
        section="6/C12",
    ),
    "C18": dict(
        engine="E1 simx + E2 livex + E4 thrx",
        technique="BFS over package/clock-step histories against a shadow ledger (E1), every interleaving of concurrently outstanding executions (E2), and opcode-level preemption-bounded thread schedules of add_transaction with a cooperative lock (E4)",
        text="Histories of <=3 (thorough 4) ticks over placements of 1/3 orders, failing placement, failing and successful cancel, replace, forced placement with clock steps 0.1 s / 1 s / 5 s / to the hour / +1 h / +24 h starting 7 s before an hour and before midnight, limits 3 / 0 / None and two clients; "
        "counters vs the shadow after every execution, blocking and restart judged at every validation; 2-3 live executions finishing in every order; all schedules of 2-3 threads x 1-2 add_transaction calls with <= 2 preemptions at bytecode granularity.",
        note="The moment the client control is consulted is observed by wrapping the control instance's _validate inside the checker; limit 5000 itself is only exercised in the thorough tier.",
        section="6/C18",
    ),
    "C19": dict(
        engine="E3 gridx + E2 livex",
        technique="complete enumeration of strategy-name x separator grids and id sources on real orders; references replayed through the real order-stream processing of a second framework instance",
        text="72+ strategy names (empty, every string of length <=2 over {a,Z,0,-,space,e-acute,CJK,NUL}, lengths 13/32/1000) x all 128 ASCII separators plus non-ASCII and lengths 0/2, through constructor and assignment; "
        "10k-order creation loops under the real clock, a frozen simulated clock and four threads; an id-source seam with 17/18-digit boundary values; references of four strategies rendered as exchange bets and "
        "pushed through process_current_orders of a second instance holding 1-3 of them (adoption into the right strategy, update attribution, unknown strategy ignored).",
        note="uuid1().time uniqueness across threads/processes is observed, otherwise assumed; 19-digit ids and equal strategy names are outside.",
        section="6/C19",
    ),
    "C01": dict(
        engine="E1 simx",
        technique="explicit-state BFS with canonical-state dedup per fixed limit configuration; every placement/replacement of every explored history judged against a brute-force worst-case reference with the request counted in full; worst case re-computed after every update",
        text="8 (thorough 27) limit configurations (order/selection/market in {None, tight, loose}) x all histories of <=3 ticks (<=4 for two tight configurations, line markets separately) over 13 order templates on three selections "
        "(passive/matched back and lay, over-limit, LOC, MOC), replacements to four prices incl. 1000, cancels, fills, suspension, turn in-play with SP, closure won/lost; only positions reachable through the controls are judged, "
        "with the acknowledgement discipline enforced by the driver.",
        note="One-directional (conservative refusals are counted, not flagged); the replace-at-old-price defect is a known finding; prices/sizes outside the menu are not covered.",
        section="6/C01",
    ),
    "C02": dict(
        engine="E1 simx",
        technique="explicit-state BFS with canonical-state dedup over request histories (direct and batched in transactions with explicit execute()), every control refusing by a real cause, before/after snapshots; exhaustive packaging cases around the per-call limits",
        text="Histories of <=4 ticks over ~35 letters: placements (valid, off-ladder, bad size, over exposure, with market version, forced), cancel/partial cancel/update/replace on two orders, forced cancel, transactions with a refused request in the middle, "
        "the same order twice, explicit execute() positions, requests issued while suspended; configurations with a transaction limit, a custom client control refusing its j-th call and max_live_trade_count 1. Every refused request is compared on a 15-field public snapshot, "
        "accepted requests are matched one-to-one with the packages reaching the framework, control invocations are counted for forced requests; n requests of each kind in one transaction for n in {0,1,limit-1,limit,limit+1,2*limit+1} x market-version patterns for Betfair/simulated (200/60/60/60) and Betdaq (10/10/50) packages.",
        note="ExecutionValidation's order-stream-down cause is live-only and not driven; live Betfair refusals are covered through the same Transaction code.",
        section="6/C02",
    ),
}

PENDING_REASON = "check not built yet in this session (work in progress; see DESIGN.md section 8 for the order of work)"


def main():
    props = [json.loads(l) for l in open(os.path.join(HERE, "properties.jsonl"))]
    checks, na = [], []
    for p in props:
        pid = p["id"]
        c = CHECKS.get(pid)
        if not c:
            na.append(dict(property_id=pid, reason=PENDING_REASON))
            continue
        checks.append(
            dict(
                property_id=pid,
                quick_cmd="./check %s --tier quick" % pid,
                thorough_cmd="./check %s --tier thorough" % pid,
                evidence_file="/verif/evidence/%s.json" % pid,
                replay_cmd_template="./check %s --replay {path}" % pid,
                engine=c["engine"],
                level_claimed=dict(category="model_checking", text=c["text"], design_ref=c["section"]),
                level_note=c["note"],
                technique=c["technique"],
            )
        )
    man = dict(
        version=1,
        setup_cmd="./setup.sh",
        hooks=dict(
            guard="FLUMINE_VERIF",
            enable="no source hooks: observation wrappers are installed by the harness inside the checker process (FLUMINE_VERIF=1 is exported by ./check for completeness)",
            baseline_off_cmd="cd /repo && /venv/bin/python -m pytest -ra -q -p no:cacheprovider --timeout=900 --continue-on-collection-errors",
            source_commits=[],
            add_only=True,
        ),
        engines=[
            dict(name="E1 simx", path="mc/simx.py", kind_free_text="explicit-state / deviation-bounded exploration of the real simulated exchange over synthetic stream files"),
            dict(name="E2 livex", path="mc/livex.py", kind_free_text="handler-granularity schedule, fault and crash exploration of live trading against an exchange double"),
            dict(name="E3 gridx", path="mc/refs.py", kind_free_text="exhaustive finite input-grid enumeration against exact-arithmetic reference models"),
            dict(name="E4 thrx", path="mc/thrx.py", kind_free_text="opcode-level preemption-bounded thread interleaving explorer"),
        ],
        checks=checks,
        not_applicable=na,
        notes="All checks: ./check <id> [--tier quick|thorough]; evidence in /verif/evidence; known findings in /verif/known_findings.json.",
    )
    for e in man["engines"]:
        e["serves_properties"] = [c["property_id"] for c in checks if c["engine"].startswith(e["name"].split()[0])]
    with open(os.path.join(HERE, "MANIFEST.json"), "w") as f:
        json.dump(man, f, indent=1)
    print("wrote MANIFEST.json: %d checks, %d pending" % (len(checks), len(na)))


if __name__ == "__main__":
    main()
