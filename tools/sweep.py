#!/usr/bin/env python3
"""Run every claimed check's quick command under several VERIF_SEED values from fresh processes; every run must
exit 0 without VIOLATION/INCONCLUSIVE/HARNESS lines and report the same states/transitions as seed 0."""
import json, os, subprocess, sys, time
HERE = os.path.dirname(os.path.dirname(os.path.abspath(__file__)))
man = json.load(open(os.path.join(HERE, "MANIFEST.json")))
seeds = [int(x) for x in (sys.argv[1:] or ["0", "1", "7"])]
base = {}
bad = 0
for seed in seeds:
    for c in man["checks"]:
        pid = c["property_id"]
        env = dict(os.environ, VERIF_SEED=str(seed))
        t = time.time()
        p = subprocess.run(c["quick_cmd"], shell=True, cwd=HERE, env=env, capture_output=True, text=True)
        ev = json.load(open(os.path.join(HERE, "evidence", pid + ".json")))
        sig = (ev["coverage"]["states"], ev["coverage"]["transitions"], ev["coverage"]["distinct_outcomes"], ev.get("violations"))
        flag = ""
        if p.returncode != 0 or "VIOLATION" in p.stdout or "INCONCLUSIVE" in p.stdout or "HARNESS" in p.stdout:
            flag = " <-- NOT SILENT rc=%d" % p.returncode
            bad += 1
        if pid in base and base[pid] != sig:
            flag += " <-- COUNTS DIFFER %s vs %s" % (base[pid], sig)
            bad += 1
        base.setdefault(pid, sig)
        print("seed=%d %s %.0fs %s%s" % (seed, pid, time.time() - t, sig, flag), flush=True)
print("sweep done, problems:", bad)
sys.exit(1 if bad else 0)
