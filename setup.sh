#!/bin/bash
# Validates the environment; nothing to build (checks import /repo's working tree directly).
set -e
cd "$(dirname "$0")"
export PYTHONPATH=/repo:/verif PYTHONDONTWRITEBYTECODE=1
/venv/bin/python - <<'PY'
import flumine, betfairlightweight, sys
assert flumine.__file__.startswith("/repo/"), flumine.__file__
print("flumine", flumine.__version__, "from", flumine.__file__, "python", sys.version.split()[0])
PY
mkdir -p evidence replays
echo setup ok
