"""C09 Runner removal voids bets on the runner and reduces the others once — E1 simx
(exhaustive scenario product: order state at removal x other-runner orders x factor x timing x
market type; second removal; same removal in two markets of one framework instance)."""
import itertools

from mc import core, simx
from props import simlife as L

CLAUSES = {
    "C09.a": "every order on the removed runner is voided in full (nothing matched, nothing remaining, zero profit) and completes",
    "C09.b": "fills on the other runners are reduced by (1 - factor) iff factor >= 2.5, never below 1.01; MOC LAY liabilities scaled by the non-runner formula",
    "C09.c": "each removal is applied exactly once per market, also when the same runner and factor appear in several markets of one run",
}

SELS = ((1, 0), (2, 0), (3, 0))
BOOK0 = dict(L.BOOK0)
BOOK0[3] = {"atb": [[5.0, 10]], "atl": [[5.5, 10]], "trd": [[5.0, 20]]}

# order on the removed runner (selection 1): name -> (dt, prefix ticks, extra ticks between request and removal)
A_STATES = {
    "resting": (200, [L.tick(200, "Q", [L.P("PBn")]), L.tick(200)]),
    "partly": (200, [L.tick(200, "T21", [L.P("PBn")]), L.tick(200)]),
    "filled": (200, [L.tick(200, "Q", [L.P("XB")]), L.tick(200)]),
    "partfill-rest": (200, [L.tick(200, "Q", [L.P("XBp")]), L.tick(200)]),
    "partcancel": (200, [L.tick(200, "Q", [L.P("PBn")]), L.tick(200, "Q", [["C", 0, 2.0]]), L.tick(200)]),
    "cancelled": (200, [L.tick(200, "Q", [L.P("PBn")]), L.tick(200, "Q", [["C", 0, None]]), L.tick(200)]),
    "fok-killed": (200, [L.tick(200, "Q", [L.P("FOK")]), L.tick(200)]),
    "lapsed-version": (200, [L.tick(200, "Q", [L.P("PBv")]), L.tick(200)]),
    "pending": (100, [L.tick(100), L.tick(100, "Q", [L.P("PBn")])]),
    "cancelling": (100, [L.tick(100, "Q", [L.P("PBn")]), L.tick(100), L.tick(100, "Q", [["C", 0, None]])]),
    "cancelling-part": (100, [L.tick(100, "Q", [L.P("PBn")]), L.tick(100), L.tick(100, "Q", [["C", 0, 2.0]])]),
    "updating": (100, [L.tick(100, "Q", [L.P("PBn")]), L.tick(100), L.tick(100, "Q", [["U", 0, "PERSIST"]])]),
    "replacing": (100, [L.tick(100, "Q", [L.P("PBn")]), L.tick(100), L.tick(100, "Q", [["R", 0, 2.3]])]),
    "moc-persistence": (200, [L.tick(200, "Q", [L.P("PBm")]), L.tick(200)]),
    "LOC": (200, [L.tick(200, "Q", [L.P("LOC")]), L.tick(200)]),
    "MOC": (200, [L.tick(200, "Q", [L.P("MOC")]), L.tick(200)]),
    "MOCL": (200, [L.tick(200, "Q", [L.P("MOCL")]), L.tick(200)]),
    "none": (200, [L.tick(200), L.tick(200)]),
}
# orders on the other runners, placed by strategy 1 in the first update
B_SETS = {
    "none": [],
    "matched-lay": [L.P("X2")],
    "matched-back": [L.P("X2", side="BACK", price=3.0)],
    "passive": [L.P("P2")],
    "moc-lay": [L.P("M2")],
    "loc-lay": [L.P("LOC", sel=2, price=5.0)],
    "moc-lay+matched": [L.P("M2"), L.P("X2", side="BACK", price=3.0)],
    "low-price": [L.P("X2", sel=3, side="BACK", price=5.0), L.P("XL", sel=1, side="BACK", price=2.0)],
}
FACTORS = (None, 0, 2.49, 2.5, 20.0, 66.67, 80.0, 99.0)  # 66.67 / 80: a fill at 3.0 / 5.0 is reduced to exactly 1.00 -> floored to 1.01
MTYPES = ("WIN", "PLACE", "OTHER_PLACE", "EACH_WAY")


def reduce_price(p, f):
    if f and f >= 2.5:
        return max(round(p * (1 - f / 100), 2), 1.01)
    return p


class Hooks:
    def __init__(self, removed_sel):
        self.removed = set(removed_sel)
        self.snap = {}  # (market_id) -> {id(order): (frags, liability)} at the end of the previous update
        self.log = []  # per update: (market_id, upd, {id(order): state})
        self.status_seq = []
        self.afs = []  # per logged update: the runners' adjustment factors as published by that book

    def tick_end(self, w, market, mb):
        st = {}
        rem = {r.selection_id for r in mb.runners if r.status == "REMOVED"}
        for o in market.blotter:
            st[id(o)] = dict(
                sel=o.selection_id,
                frags=[(p, s) for _, p, s in o.simulated.matched],
                matched=o.size_matched,
                remaining=o.size_remaining,
                complete=o.complete,
                status=o.status.name,
                liab=getattr(o.order_type, "liability", None),
                kind=o.order_type.ORDER_TYPE.name,
                side=o.side,
                voided=o.simulated.size_voided,
                profit=None,
            )
        self.afs.append({r.selection_id: r.adjustment_factor for r in mb.runners})
        self.log.append((market.market_id, sorted(rem), st, mb.inplay))

    def closed_end(self, w, market, mb):
        st = {}
        for o in market.blotter:
            st[id(o)] = dict(sel=o.selection_id, profit=o.profit, matched=o.size_matched, complete=o.complete, status=o.status.name, kind=o.order_type.ORDER_TYPE.name, side=o.side, remaining=o.size_remaining)
        self.afs.append({})
        self.log.append((market.market_id, "closed", st, None))


def build(a_state, b_set, factor, timing, mtype, second, two_markets):
    if timing == "inflight-double":
        # the order on runner 1 is requested, its runner is withdrawn 50 ms later and runner 3 another 50 ms later -
        # both before the placement could take effect (latency 120 ms): every order in the market still gets both
        return [
            [50, ["Q"], [["@", 1, a] for a in B_SETS[b_set]]],
            [50, ["RM", 1, factor], [L.P("PBn"), L.P("PBn", sel=3, price=5.5)]],  # the second one rides on runner 3
            [50, ["RM", 3, second], []],
            L.tick(200),
            L.tick(200, ["MD"]),
            L.tick(200),
            L.tick(200, ["CL", {2: "WINNER"}]),
        ]
    dt, prefix = A_STATES[a_state]
    prefix = [list(t) for t in prefix]
    hist = []
    if timing == "after-ip":
        hist.append(L.tick(dt, L.EVENTS["IP"][:1] + [{1: 2.1, 2: 3.1, 3: 5.2}, 1]))
    # strategy 1 places the other-runner orders in update 0
    first = prefix[0]
    first = [first[0], first[1], list(first[2]) + [["@", 1, a] for a in B_SETS[b_set]]]
    prefix[0] = first
    if timing == "after-ip":
        # SP orders must be placed before the turn in-play: place first, then IP, then the rest
        hist = [prefix[0], L.tick(dt, ["IP", {1: 2.1, 2: 3.1, 3: 5.2}, 1])] + prefix[1:]
    else:
        hist = prefix
    # the removal arrives as the event of the last prefix tick
    last = hist[-1]
    if timing == "suspended":
        # the non-runner is declared in one SUSPENDED book with a new version (as the exchange does)
        hist[-1] = [last[0], ["M", [["SUS"], ["RM", 1, factor]]], last[2]]
        hist += [L.tick(dt), L.tick(dt, ["OPN"]), L.tick(dt, ["MD"]), L.tick(dt)]
    else:
        hist[-1] = [last[0], ["RM", 1, factor], last[2]]
        hist += [L.tick(dt), L.tick(dt, ["MD"]), L.tick(dt)]
    if second:
        # after the first withdrawal the exchange re-bases the factors of the runners that are left
        hist.append(L.tick(dt, ["AF", {2: 45.0, 3: 55.0}]))
        hist.append(L.tick(dt, ["RM", 3, second]))
        hist.append(L.tick(dt))
    if timing == "before-ip":
        hist.append(L.tick(dt, ["IP", {2: 3.1, 3: 5.2}, 1]))
        hist.append(L.tick(dt))
    hist.append(L.tick(dt, ["CL", {2: "WINNER", 3: "LOSER"}]))
    if timing == "reopened":
        # the closed market receives data again (re-settlement): the removal must not be applied a second time
        hist += [L.tick(dt, ["SUS"]), L.tick(dt, ["MD"]), L.tick(dt, ["CL", {2: "WINNER", 3: "LOSER"}])]
    return hist


def _placed_after(args):
    """the non-runner is declared while the market holds no order at all; the bets are struck afterwards, at
    prices that already reflect the withdrawal: they must be exactly what they are in the same run without the
    removal (differential oracle) - nothing is reduced or scaled late"""
    b_set, factor, mtype, gap = args
    case = dict(placed_after=list(args))
    out = []
    counts = {"clause:C09.c": 0, "placed_after_runs": 1, "placed_after_matched": 0}
    res = []
    for ev in (["RM", 1, factor], ["Q"]):
        hist = [L.tick(200, ev)] + [L.tick(200)] * gap + [L.tick(200, "Q", [["@", 1, a] for a in B_SETS[b_set]]), L.tick(200), L.tick(200, "T3"), L.tick(200), L.tick(200, ["CL", {2: "WINNER", 3: "LOSER"}])]
        ticks, scripts = L.split_history(hist, 2)
        ew = 4 if mtype == "EACH_WAY" else None
        nwin = 2 if "PLACE" in mtype else 1
        skw = dict(max_order_exposure=None, max_selection_exposure=None, max_live_trade_count=5)
        L._install_created_tracking()
        w = simx.SimWorld([(simx.MarketSpec(market_id="1.100000001", market_type=mtype, sels=SELS, book0=BOOK0, ew=ew, nwin=nwin), ticks)], [dict(script=scripts[k], kw=dict(skw), name="S%d" % k) for k in range(2)]).run()
        if w.run_exception is not None:
            out.append(core.v("C09.c", ("run", "exception", type(w.run_exception).__name__, "-"), "run raised %r" % (w.run_exception,), case))
            return dict(violations=out, counts=counts, outcome=None)
        res.append([(o.selection_id, o.side, o.order_type.ORDER_TYPE.name, [(p, z) for _, p, z in o.simulated.matched], getattr(o.order_type, "liability", None)) for o in getattr(w.strategies[1], "_created", [])])
    counts["clause:C09.c"] += 1
    if any(r[3] for r in res[0]):
        counts["placed_after_matched"] += 1
    if res[0] != res[1]:
        out.append(core.v("C09.c", ("-", "applied-count", "late", "first"), "bets struck after the removal (factor %s): %s, without the removal %s" % (factor, res[0], res[1]), case))
    return dict(violations=out, counts=counts, outcome=core.stable_hash(res[0]))


def _one(args):
    if args[0] == "placed-after":
        return _placed_after(tuple(args[1:]))
    a_state, b_set, factor, timing, mtype, second, two = args
    hist = build(a_state, b_set, factor, timing, mtype, second, two)
    ticks, scripts = L.split_history(hist, 2)
    ew = 4 if mtype == "EACH_WAY" else None
    nwin = 2 if "PLACE" in mtype else 1
    markets = [(simx.MarketSpec(market_id="1.100000001", market_type=mtype, sels=SELS, book0=BOOK0, ew=ew, nwin=nwin), ticks)]
    strategies = []
    skw = dict(max_order_exposure=None, max_selection_exposure=None, max_live_trade_count=5)
    own_mw = two == "own-mw"
    again = two == "again"
    if own_mw or again:
        two = None
    if two:
        # the same market shape again under another id (same selection ids, same removal): sequentially
        # (two == "seq") or event-grouped ("event")
        t2 = [[t[0], t[1]] for t in ticks]
        if two == "event-long":
            # the second market outlives the first: further updates arrive after its sibling closed
            t2 = t2[:-1] + [[200, ["Q"]], [200, ["MD"]], [200, ["Q"]]] + t2[-1:]
        markets.append((simx.MarketSpec(market_id="1.100000002", market_type=mtype, sels=SELS, book0=BOOK0, ew=ew, nwin=nwin, t0=simx.T0 + (50 if two.startswith("event") else 3600_000)), t2))
        s0 = dict(scripts[0])
        s0.update({(1, k[1]): v for k, v in scripts[0].items()})
        s1 = dict(scripts[1])
        s1.update({(1, k[1]): v for k, v in scripts[1].items()})
        scripts = [s0, s1]
    for k in range(2):
        strategies.append(dict(script=scripts[k], kw=dict(skw), name="S%d" % k))
    h = Hooks([1])
    L._install_created_tracking()
    if again:
        # the same market (same id, same withdrawal) was already simulated by ANOTHER framework instance earlier in
        # this process (a parameter sweep): nothing of that run may leak into this one
        simx.SimWorld(markets, [dict(script=dict(sc), kw=dict(skw), name="S%d" % k) for k, sc in enumerate(scripts)], event_processing=False).run()
    w = simx.SimWorld(markets, strategies, hooks=h, event_processing=bool(two and two.startswith("event")))
    w.own_sim_middleware = own_mw
    w.run()
    out = []
    counts = {"clause:C09.a": 0, "clause:C09.b": 0, "clause:C09.c": 0, "voided_orders": 0, "voided_with_matched": 0, "reduced_fragments": 0, "scaled_liabilities": 0, "second_market_removals": 0, "second_removals": 0, "inflight_at_removal": 0}
    case = dict(args=list(args))

    def key(*k):
        return k

    if w.run_exception is not None:
        out.append(core.v("C09.a", ("run", "exception", type(w.run_exception).__name__, "-"), "run raised %r" % (w.run_exception,), case))
        return dict(violations=out, counts=counts, outcome=None)
    sig = []
    for mi, (spec, _) in enumerate(markets):
        mid = spec.market_id
        ordinal = "first" if mi == 0 else "second"
        logs = [e for e in h.log if e[0] == mid]
        afs = [a for e, a in zip(h.log, h.afs) if e[0] == mid]
        prev = None
        removed_seen = []
        applied_at = {}
        for n, (_, rem, st, inplay) in enumerate(logs):
            if rem == "closed":
                for oid, s in st.items():
                    if s["sel"] == 1:
                        counts["clause:C09.a"] += 1
                        if s["profit"] != 0:
                            out.append(core.v("C09.a", (s["kind"], a_state, "profit", ordinal), "order on removed runner settles with profit %s" % s["profit"], case))
                        if not s["complete"] and a_state != "none":
                            out.append(core.v("C09.a", (s["kind"], a_state, "completes", ordinal), "order on removed runner still %s at closure" % s["status"], case))
                    sig.append((s["sel"], s["kind"], s["side"], s["profit"], s["status"]))
                continue
            new_removed = [r for r in rem if r not in removed_seen]
            if prev is not None:
                for r in new_removed:
                    f = factor if r == 1 else second
                    if mi == 1:
                        counts["second_market_removals"] += 1
                    if r == 3:
                        counts["second_removals"] += 1
                    for oid, s in st.items():
                        p = prev.get(oid)
                        if s["sel"] == r:
                            continue
                        if p is None:
                            continue
                        # b) other runners
                        counts["clause:C09.b"] += 1
                        if s["kind"] == "MARKET_ON_CLOSE" and s["side"] == "LAY":
                            if mtype == "WIN":
                                # runner adjustment factor of the order's own runner as published
                                # (the book of the removal update carries it)
                                raf = afs[n].get(s["sel"])
                                exp = p["liab"] * (1 - ((f or 0) / (100 - raf))) if f is not None else None
                            elif mtype in ("PLACE", "OTHER_PLACE"):
                                exp = p["liab"] * (100 - f) * 0.01 if f is not None else None
                            else:
                                exp = p["liab"]
                            if exp is None:
                                exp = p["liab"]  # factor not published: nothing to scale by
                            if abs(s["liab"] - exp) > 1e-6:
                                out.append(core.v("C09.b", (s["kind"], "liability", mtype, ordinal), "MOC LAY liability %s -> %s expected %s (factor %s)" % (p["liab"], s["liab"], exp, f), case))
                            elif exp != p["liab"]:
                                counts["scaled_liabilities"] += 1
                        else:
                            old = p["frags"]
                            got = s["frags"][: len(old)]
                            exp = [(reduce_price(pp, f), zz) for pp, zz in old]
                            if [(round(a, 4), b) for a, b in got] != [(round(a, 4), b) for a, b in exp]:
                                out.append(core.v("C09.b", (s["kind"], "price factor", "reduced" if f and f >= 2.5 else "unreduced", ordinal), "fragments %s -> %s expected %s (factor %s)" % (old, got, exp, f), case))
                            elif exp != old:
                                counts["reduced_fragments"] += 1
            # a) orders on a removed runner: voided in full from the update of the removal on
            for oid, s in st.items():
                if s["sel"] in rem:
                    counts["clause:C09.a"] += 1
                    if s["matched"] != 0 or s["frags"]:
                        out.append(core.v("C09.a", (s["kind"], a_state, "matched", ordinal), "order on removed runner has matched %s %s" % (s["matched"], s["frags"]), case))
                    if s["remaining"] != 0:
                        out.append(core.v("C09.a", (s["kind"], a_state, "remaining", ordinal), "order on removed runner has %s remaining (status %s)" % (s["remaining"], s["status"]), case))
                    if prev is not None and s["sel"] in new_removed:
                        counts["voided_orders"] += 1
                        if prev.get(oid, {}).get("matched"):
                            counts["voided_with_matched"] += 1
                        if prev.get(oid, {}).get("status") in ("PENDING", "CANCELLING", "UPDATING", "REPLACING"):
                            counts["inflight_at_removal"] += 1
                    # completes: by the end of the update of the removal unless a response is still to come
                    if not s["complete"] and s["status"] not in ("PENDING", "CANCELLING", "UPDATING", "REPLACING"):
                        if s["sel"] not in new_removed or True:
                            out.append(core.v("C09.a", (s["kind"], a_state, "completes", ordinal), "order on removed runner is %s (not complete) at the end of the update" % s["status"], case))
            # c) once: on updates without a new removal nothing changes for the other runners
            if prev is not None and not new_removed and rem:
                counts["clause:C09.c"] += 1
                for oid, s in st.items():
                    p = prev.get(oid)
                    if p is None or s["sel"] in rem:
                        continue
                    if s["frags"][: len(p["frags"])] != p["frags"] or (s["liab"] != p["liab"]):
                        out.append(core.v("C09.c", (s["kind"], "applied-count", "again", ordinal), "removal applied again: %s/%s -> %s/%s" % (p["frags"], p["liab"], s["frags"], s["liab"]), case))
            removed_seen = list(rem)
            prev = st
    return dict(violations=_dedup(out), counts=counts, outcome=core.stable_hash(sig))


def _dedup(vs, per_key=1):
    seen, out = {}, []
    for d in vs:
        k = tuple(d["key"])
        seen[k] = seen.get(k, 0) + 1
        if seen[k] <= per_key:
            out.append(d)
    return out


def run(tier):
    rep = core.Report("C09", tier, "E1 simx")
    jobs = []
    thorough = tier == "thorough"
    for a in A_STATES:
        for b in B_SETS:
            for f in FACTORS:
                for timing in ("plain", "before-ip", "after-ip", "suspended", "reopened"):
                    if timing == "after-ip" and a in ("pending", "cancelling", "cancelling-part", "updating", "replacing"):
                        continue
                    mts = MTYPES if (thorough or b in ("moc-lay", "moc-lay+matched")) else ("WIN",)
                    for mt in mts:
                        jobs.append((a, b, f, timing, mt, None, None))
    # second removal in the same market; same removal in a second market (sequential / event-grouped)
    for a in ("resting", "partly", "partcancel", "MOC", "none", "pending"):
        for b in ("matched-lay", "matched-back", "moc-lay", "low-price"):
            for f in (2.5, 20.0) + ((0, 99.0) if thorough else ()):
                for mt in ("WIN", "PLACE"):
                    jobs.append((a, b, f, "plain", mt, 10.0, None))
                    jobs.append((a, b, f, "plain", mt, f, None))
                    for two in ("seq", "event", "event-long", "own-mw", "again"):
                        jobs.append((a, b, f, "plain", mt, None, two))
    for b in ("matched-lay", "matched-back", "moc-lay", "low-price", "moc-lay+matched"):
        for f in (2.5, 20.0, None):
            for sec in (10.0, 2.0):
                for mt in ("WIN", "PLACE"):
                    jobs.append(("pending", b, f, "inflight-double", mt, sec, None))
    for b in ("matched-lay", "matched-back", "passive", "moc-lay", "loc-lay", "moc-lay+matched"):
        for f in FACTORS:
            for mt in ("WIN", "PLACE") + (("EACH_WAY",) if thorough else ()):
                for gap in (0, 2):
                    jobs.append(("placed-after", b, f, mt, gap))
    for r in core.pmap(_one, jobs):
        rep.add_violations(r["violations"])
        rep.merge_counts(r["counts"])
        if r["outcome"]:
            rep.outcomes.add(r["outcome"])
    rep.need("placed_after_matched", "voided_orders", "voided_with_matched", "reduced_fragments", "scaled_liabilities", "second_market_removals", "second_removals", "inflight_at_removal")
    rep.states = len(jobs)
    rep.transitions = len(jobs)
    rep.traces = len(jobs)
    rep.evaluations = sum(rep.clauses.values())
    rep.nontrivial = len(rep.outcomes)
    rep.sample({"scenario": jobs[len(jobs) // 3], "history": build(*jobs[len(jobs) // 3])})
    rep.sample({"scenario": jobs[-1]})
    rep.bounds = dict(order_states=len(A_STATES), other_runner_sets=len(B_SETS), factors=FACTORS, timings=3, market_types=MTYPES, runs=len(jobs))
    rep.rule = "full product of (state of the order on the removed runner) x (orders on the other runners) x factor x timing relative to turn in-play x market type, each a complete real simulated run to closure; plus second removal in the market and the same removal in a second market processed sequentially / event-grouped by one framework instance; distinct_nontrivial = distinct settlement outcome vectors"
    rep.assumptions = [
        "reduction threshold 2.5 applied to every market type (the statement names the win-market threshold only)",
        "a removal whose factor is not published (None) scales nothing",
        "an order with a request in flight at the removal completes when that response arrives, otherwise by the end of the update that carries the removal",
    ]
    return rep.finish()


def replay(rep):
    if "placed_after" in rep["case"]:
        a = ["placed-after"] + list(rep["case"]["placed_after"])
    else:
        a = rep["case"]["args"]
    r = _one(tuple(a))
    for d in r["violations"]:
        print(d["key"], d["detail"])
    return 1 if r["violations"] else 0
