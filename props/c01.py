"""C01 Exposure limits bound every order that reaches the exchange — E1 simx.
BFS (canonical-state dedup) over histories of placements / replacements / cancels / market events under a
FIXED limit configuration: every request of the history is judged against the brute-force worst case
(refs A2) with the request counted in full; the worst-case loss is re-computed after every update and
the realised loss at closure.  Only positions reachable through the controls are judged."""
import itertools
from fractions import Fraction as F

from mc import core, simx, refs
from props import simlife as L, c04

CLAUSES = {
    "C01.a": "a placement or price replacement is handed to the exchange only if, counted in full, the order / selection / market worst-case loss stays within the configured limits",
    "C01.b": "a refused new order is marked VIOLATION, stays out of the blotter and is never sent",
    "C01.c": "with acknowledgement discipline the worst-case loss on a selection never exceeds the limit under any later history, nor does the realised loss at closure",
}

BOOK0 = {
    1: {"atb": [[2.0, 20], [1.9, 20]], "atl": [[2.2, 20], [2.4, 20]], "trd": [[2.0, 20], [2.2, 20]], "ltp": 2.0},
    2: {"atb": [[3.0, 20]], "atl": [[3.2, 20]], "trd": [[3.0, 20]]},
    3: {"atb": [[5.0, 20]], "atl": [[5.5, 20]], "trd": [[5.0, 20]]},
}
SELS = ((1, 0), (2, 0), (3, 0))

TEMPL = {
    "b1": dict(sel=1, side="BACK", price=2.1, size=4.0),  # passive back, exposure 4
    "l1": dict(sel=1, side="LAY", price=2.1, size=4.0),  # passive lay, exposure 4.4
    "xb1": dict(sel=1, side="BACK", price=2.0, size=4.0),  # matched at once
    "xl1": dict(sel=1, side="LAY", price=2.2, size=4.0),  # matched at once, liability 4.8
    "bb1": dict(sel=1, side="BACK", price=2.1, size=6.0),  # above the tight order limit
    "ll1": dict(sel=1, side="LAY", price=3.0, size=3.0),  # liability 6
    "loc1": dict(sel=1, side="LAY", ot="LOC", liab=4.0, price=3.0),
    "moc1": dict(sel=1, side="BACK", ot="MOC", liab=4.0),
    "mocl1": dict(sel=1, side="LAY", ot="MOC", liab=4.0),
    "b2": dict(sel=2, side="BACK", price=3.1, size=4.0),
    "xl2": dict(sel=2, side="LAY", price=3.2, size=2.0),  # liability 4.4
    "b3": dict(sel=3, side="BACK", price=5.0, size=4.0),
    "bm1": dict(sel=1, side="LAY", price=2.1, size=4.0, pers="MARKET_ON_CLOSE"),
    "bp1": dict(sel=1, side="BACK", price=2.1, size=4.0, pers="PERSIST"),
    "lp1": dict(sel=1, side="LAY", price=2.1, size=4.0, pers="PERSIST"),
}


def _prefixes(dt):
    """non-initial start states: a resting order that survived a suspension and had a request refused meanwhile
    (market not open) - the order is still at the exchange and must still be counted"""
    out = {}
    for name, t, req in (("back-cancel", "bp1", ["C", 0, None]), ("lay-replace", "lp1", ["R", 0, 2.3]), ("back-cancelpart", "bp1", ["C", 0, 2.0])):
        out["refused-while-suspended/" + name] = [L.tick(dt, "Q", [["P", dict(TEMPL[t])]]), L.tick(dt, "SUS"), L.tick(dt, "Q", [req]), L.tick(dt, "OPN")]
    return out
LINE_TEMPL = {
    "lb": dict(sel=1, side="BACK", price=2.5, size=4.0, ladder="LINE_RANGE", line=(0.5, 9.5, 1)),
    "ll": dict(sel=1, side="LAY", price=2.5, size=4.0, ladder="LINE_RANGE", line=(0.5, 9.5, 1)),
    "lbig": dict(sel=1, side="LAY", price=3.5, size=6.0, ladder="LINE_RANGE", line=(0.5, 9.5, 1)),
}


_LINE_MARKET = None


def ref_of(o, assume_status=None, price=None, complete=None):
    kind = {"LIMIT": "LIMIT", "LIMIT_ON_CLOSE": "LOC", "MARKET_ON_CLOSE": "MOC"}[o.order_type.ORDER_TYPE.name]
    # whether an order is a line bet is a fact about its MARKET (taken from the configuration), not about what
    # the order object happens to carry
    line = kind == "LIMIT" and (_LINE_MARKET if _LINE_MARKET is not None else o.order_type.price_ladder_definition == "LINE_RANGE")
    st = assume_status or L.sname(o.status)
    if kind == "LIMIT":
        frags = [(p, s) for _, p, s in o.simulated.matched]
        rem = o.size_remaining if st is not None else o.order_type.size
        if st is None:
            rem = o.order_type.size
        return refs.RefOrder(o.side, "LIMIT", line, st, o.complete if complete is None else complete, frags, rem, price if price is not None else o.order_type.price, None, o.lookup)
    return refs.RefOrder(o.side, kind, False, st, o.complete if complete is None else complete, [], 0, None, o.order_type.liability, o.lookup)


def order_exposure(o, price=None):
    ot = o.order_type
    if ot.ORDER_TYPE.name == "LIMIT":
        if _LINE_MARKET if _LINE_MARKET is not None else ot.price_ladder_definition == "LINE_RANGE":
            return F(str(ot.size))
        p = F(str(price if price is not None else ot.price))
        return F(str(ot.size)) if o.side == "BACK" else (p - 1) * F(str(ot.size))
    return F(str(ot.liability))


class Hooks:
    def __init__(self, limits, hist, cfg):
        self.lim = limits  # (order, selection, market)
        self.hist = hist
        self.cfg = cfg
        self.viol = []
        self.counts = {"clause:C01.a": 0, "clause:C01.b": 0, "clause:C01.c": 0, "accepted": 0, "refused_by_exposure": 0, "conservative_refusals": 0, "replace_decisions": 0, "accepted_near_limit": 0, "skipped_no_ack": 0, "closures": 0}
        self.canon = None
        self.n_ticks = len(hist)
        self.sent = set()
        self._pre = None
        self.lay_replace_up = False  # an accepted LAY replacement to a higher price happened (known cause of later excess)

    def v(self, clause, key, detail):
        self.viol.append(core.v(clause, key, detail, dict(history=self.hist, cfg=self.cfg), size=L._hsize(self.hist)))

    def package(self, w, p):
        for o in p._orders:
            self.sent.add(id(o))

    # ---- reference figures
    def position(self, w, st, market, lookup, exclude=None, extra=None, pending="count"):
        rs = []
        for o in market.blotter.strategy_selection_orders(st, lookup[1], lookup[2]):
            if o is exclude:
                continue
            s = L.sname(o.status)
            if s == "VIOLATION":
                if id(o) not in self.sent or o.bet_id is None:
                    continue
                # the order is at the exchange whatever its local status says (a refused later request must not
                # take it out of the books): counted as the exchange holds it
                rs.append(ref_of(o, assume_status="EXECUTABLE", complete=not (o.size_remaining > 0)))
                continue
            if s == "PENDING" and pending == "skip":
                # decisions: unacknowledged orders are excluded from exposure by design (domain note of the
                # property); under the acknowledgement discipline there is none on the selection being decided
                continue
            # per-update recomputation: an order awaiting its acknowledgement was counted in full when accepted
            rs.append(ref_of(o, assume_status="EXECUTABLE" if s == "PENDING" else None))
        if extra is not None:
            rs.append(extra)
        return rs

    def sel_exposure(self, rs):
        w_, l_ = refs.ref_selection(rs)
        return max(F(0), -min(w_, l_)), w_, l_

    def market_worst(self, w, st, market, exclude=None, extra=None, extra_lookup=None):
        lookups = {o.lookup for o in market.blotter.strategy_orders(st) if L.sname(o.status) != "PENDING" and (L.sname(o.status) != "VIOLATION" or (id(o) in self.sent and o.bet_id is not None))}
        if extra_lookup is not None:
            lookups.add(extra_lookup)
        per = []
        for lk in sorted(lookups):
            rs = self.position(w, st, market, lk, exclude=exclude, extra=extra if lk == extra_lookup else None, pending="skip")
            per.append(refs.ref_selection(rs))
        mb = market.market_book
        active = sum(1 for r in mb.runners if r.status == "ACTIVE")
        return refs.ref_market(per, active - len(per), mb.number_of_winners)

    # ---- decisions
    def pre_action(self, w, st, market, act, o):
        if act[0] not in ("P", "R") or o is None:
            self._pre = None
            return
        self._pre = dict(in_blotter=o.id in market.blotter, status=L.sname(o.status))
        lo, ls, lm = self.lim
        tol = F(2, 100)
        before_sel, _, _ = self.sel_exposure(self.position(w, st, market, o.lookup, pending="skip"))
        before_mw = self.market_worst(w, st, market) if lm is not None else None
        if act[0] == "P":
            new = ref_of(o, assume_status="EXECUTABLE")
            rs = self.position(w, st, market, o.lookup, extra=new, pending="skip")
            sel_exp, _, _ = self.sel_exposure(rs)
            oe = order_exposure(o)
            mw = self.market_worst(w, st, market, extra=new, extra_lookup=o.lookup) if lm is not None else None
        else:
            price = act[2]
            new = ref_of(o, price=price)
            # the replaced order stays with its fills; its remainder moves to the new price
            new_rs = self.position(w, st, market, o.lookup, exclude=o, extra=new, pending="skip")
            sel_exp, _, _ = self.sel_exposure(new_rs)
            oe = order_exposure(o, price=price)
            mw = self.market_worst(w, st, market, exclude=o, extra=new, extra_lookup=o.lookup) if lm is not None else None
        self._pre.update(sel_exp=sel_exp, oe=oe, mw=mw, tol=tol, before_sel=before_sel, before_mw=before_mw)

    def post_action(self, w, st, market, act, o, out):
        pre = self._pre
        self._pre = None
        if pre is None or o is None:
            return
        lo, ls, lm = self.lim
        kind = "place" if act[0] == "P" else "replace"
        forced = act[0] == "P" and act[1].get("force")
        otype = o.order_type.ORDER_TYPE.name
        if act[0] == "R":
            self.counts["replace_decisions"] += 1
            if out is True and o.side == "LAY" and act[2] > o.order_type.price:
                self.lay_replace_up = True
        if isinstance(out, str):
            return
        if out is True and not forced:
            self.counts["accepted"] += 1
            self.counts["clause:C01.a"] += 1
            tol = pre["tol"]
            key = lambda which: (kind, otype, o.side, which)
            if lo is not None and pre["oe"] > F(str(lo)) + tol:
                self.v("C01.a", key("order"), "%s accepted: order exposure %s > max_order_exposure %s" % (kind, float(pre["oe"]), lo))
            # a request is judged on what IT adds: an earlier excess (another finding) is not charged to it again
            if ls is not None and pre["sel_exp"] > F(str(ls)) + tol + F(5, 1000) * 20 and pre["sel_exp"] > pre["before_sel"] + tol:
                self.v("C01.a", key("selection"), "%s accepted: worst-case loss on the selection would be %s > max_selection_exposure %s" % (kind, float(pre["sel_exp"]), ls))
            if lm is not None and pre["mw"] is not None and -pre["mw"] > F(str(lm)) + tol + F(5, 1000) * 20 and -pre["mw"] > -pre["before_mw"] + tol:
                self.v("C01.a", key("market"), "%s accepted: worst-case market loss would be %s > max_market_exposure %s" % (kind, float(-pre["mw"]), lm))
            if ls is not None and pre["sel_exp"] > F(str(ls)) - 1:
                self.counts["accepted_near_limit"] += 1
        elif out is False:
            msg = o.violation_msg or ""
            by_exposure = "STRATEGY_EXPOSURE" in msg and "exposure" in msg
            if by_exposure:
                self.counts["refused_by_exposure"] += 1
                within = (lo is None or pre["oe"] <= F(str(lo))) and (ls is None or pre["sel_exp"] <= F(str(ls))) and (lm is None or pre["mw"] is None or -pre["mw"] <= F(str(lm)))
                if within:
                    self.counts["conservative_refusals"] += 1  # one-directional property: counted, not flagged
            if act[0] == "P":
                self.counts["clause:C01.b"] += 1
                if L.sname(o.status) != "VIOLATION":
                    self.v("C01.b", (kind, "status"), "refused new order has status %s" % L.sname(o.status))
                if o.id in market.blotter:
                    self.v("C01.b", (kind, "blotter"), "refused new order is in the blotter")
                if id(o) in self.sent:
                    self.v("C01.b", (kind, "package"), "refused new order was handed to the execution layer")

    # ---- after every update
    def tick_end(self, w, market, mb):
        lo, ls, lm = self.lim
        if ls is not None:
            for st in w.strategies:
                for lk in sorted({o.lookup for o in market.blotter.strategy_orders(st)}):
                    rs = self.position(w, st, market, lk)
                    exp, _, _ = self.sel_exposure(rs)
                    self.counts["clause:C01.c"] += 1
                    sm = sum((s for r in rs for _, s in r.frags), F(0))
                    if exp > F(str(ls)) + F(2, 100) + F(5, 1000) * sm:
                        ev = L._evkinds(self.hist, w.tick_no)
                        cause = "after-lay-replace-up" if self.lay_replace_up else "-"
                        self.v("C01.c", (ev, "selection", cause), "worst-case loss on selection %s is %s > max_selection_exposure %s after %s" % (lk[1], float(exp), ls, ev))
        if w.tick_no == self.n_ticks:
            try:
                self.canon = simx.canon_world(w)
            except simx.CanonUnavailable:
                self.canon = None

    def closed_end(self, w, market, mb):
        lo, ls, lm = self.lim
        self.counts["closures"] += 1
        if ls is None:
            return
        for st in w.strategies:
            by = {}
            for o in market.blotter.strategy_orders(st):
                by.setdefault(o.lookup, []).append(o)
            for lk, os_ in by.items():
                self.counts["clause:C01.c"] += 1
                loss = -sum(o.profit for o in os_)
                if loss > ls + 0.02 + 0.005 * sum(o.size_matched for o in os_):
                    cause = "after-lay-replace-up" if self.lay_replace_up else "-"
                    self.v("C01.c", ("close", "selection", cause), "realised loss on selection %s is %s > max_selection_exposure %s" % (lk[1], loss, ls))


_ACK = False


def _install_ack_discipline():
    """driver-side: a new order on a selection is only requested when no order of that strategy on it is
    still awaiting its acknowledgement (the statement's domain)."""
    global _ACK
    if _ACK:
        return
    _ACK = True
    Scripted, _ = simx.classes()
    orig = Scripted.do

    def do(self, act, market, mi, tick, txn=None):
        if act[0] in ("P", "R") and getattr(self.world, "ack_discipline", False):
            if act[0] == "P":
                sel, hc = act[1].get("sel", 1), act[1].get("hc", 0)
            else:
                tgt = self.order_at(act[1])
                sel, hc = (tgt.selection_id, tgt.handicap) if tgt is not None else (None, 0)
            # a replacement creates a new order too: an in-flight replace is as unacknowledged as a pending placement
            pending = [o for o in market.blotter.strategy_selection_orders(self, sel, hc) if L.sname(o.status) in ("PENDING", "REPLACING")] if sel is not None else []
            if pending:
                self.log.append((mi, tick, act, "notack"))
                h = self.world.hooks
                if h is not None:
                    h.counts["skipped_no_ack"] += 1
                return "notack"
        return orig(self, act, market, mi, tick, txn)

    Scripted.do = do


def alphabet_for(line=False):
    def alphabet(dt, rich):
        A = [L.tick(dt)]
        if line:
            for e in ["Q", "SUS", "CL"]:
                if e != "Q":
                    A.append(L.tick(dt, e))
            for k in LINE_TEMPL:
                A.append(L.tick(dt, "Q", [["P", dict(LINE_TEMPL[k])]]))
            A.append(L.tick(dt, "Q", [["R", 0, 3.5]]))
            A.append(L.tick(dt, "Q", [["C", 0, None]]))
            return A
        for e in ["T21", "T22", "SUS", "IP", "CL", "CL2"] + (["RM2", "OPN"] if rich else []):
            A.append(L.tick(dt, e))
        names = ["b1", "l1", "xb1", "xl1", "bb1", "ll1", "loc1", "moc1", "b2", "xl2"] + (["mocl1", "b3", "bm1"] if rich else [])
        for k in names:
            A.append(L.tick(dt, "Q", [["P", dict(TEMPL[k])]]))
        for i in (0, 1):
            A.append(L.tick(dt, "Q", [["C", i, None]]))
            A.append(L.tick(dt, "Q", [["C", i, 2.0]]))
            for p in (2.0, 2.3, 4.0) + ((1000,) if rich or i == 0 else ()):
                A.append(L.tick(dt, "Q", [["R", i, p]]))
        return A

    return alphabet


def _run(args):
    global _LINE_MARKET
    hist, cfg = args
    _LINE_MARKET = bool(cfg.get("line"))
    lim = tuple(cfg["limits"])
    ticks, scripts = L.split_history(hist, 1)
    line = cfg.get("line")
    spec = simx.MarketSpec(book0=BOOK0, sels=SELS, ladder="LINE_RANGE" if line else "CLASSIC", line=(0.5, 9.5, 1) if line else None, market_type="WIN", betting_type="LINE" if line else "ODDS")
    h = Hooks(lim, hist, cfg)
    skw = dict(max_order_exposure=lim[0], max_selection_exposure=lim[1], max_market_exposure=lim[2], max_live_trade_count=10)
    L._install_created_tracking()
    _install_ack_discipline()
    w = simx.SimWorld([(spec, ticks)], [dict(script=scripts[0], kw=skw)], hooks=h)
    w.ack_discipline = True
    w.run()
    if w.run_exception is not None:
        h.v("C01.a", ("run", "exception", type(w.run_exception).__name__, "-"), "run raised %r" % (w.run_exception,))
    outcome = core.stable_hash([[str(e[3]) for e in st.log] for st in w.strategies] + [[L.sname(o.status), round(o.size_matched, 2)] for o in w.all_orders()])
    return dict(canon=hash(h.canon) if h.canon is not None else None, violations=_dedup(h.viol), counts=h.counts, outcome=outcome)


def _dedup(vs, per_key=1):
    seen, out = {}, []
    for d in vs:
        k = tuple(d["key"])
        seen[k] = seen.get(k, 0) + 1
        if seen[k] <= per_key:
            out.append(d)
    return out


LIMITS_Q = [(5, 9, None), (None, 9, None), (5, None, None), (None, None, 12), (5, 9, 12), (None, None, None), (100, 100, 100), (None, 9, 12)]


def run(tier):
    rep = core.Report("C01", tier, "E1 simx")
    thorough = tier == "thorough"
    lims = list(itertools.product((None, 5, 100), (None, 9, 100), (None, 12, 100))) if thorough else LIMITS_Q
    for lim in lims:
        cfg = dict(name="limits=%s" % (lim,), dt=200, limits=list(lim), rich=thorough)
        c04.explore(rep, {"C01"}, alphabet_for(False), tier, [cfg], depth_q=3, depth_t=3, dev_k_q=0, dev_k_t=0, horizon=0, run=_run)
    deep = [(5, 9, None), (None, 9, 12)] if not thorough else [(5, 9, None), (None, 9, 12), (5, 9, 12), (None, 9, None)]
    for lim in deep:
        cfg = dict(name="deep limits=%s" % (lim,), dt=200, limits=list(lim))
        c04.explore(rep, {"C01"}, alphabet_for(False), tier, [cfg], depth_q=4, depth_t=5 if lim == (5, 9, None) else 4, dev_k_q=0, dev_k_t=0, horizon=0, run=_run)
    for lim in [(5, 9, None), (None, 9, 12)]:
        for pname, pre in _prefixes(200).items():
            cfg = dict(name="from %s limits=%s" % (pname, lim), dt=200, limits=list(lim), prefix=pre)
            c04.explore(rep, {"C01"}, alphabet_for(False), tier, [cfg], depth_q=2, depth_t=3, dev_k_q=0, dev_k_t=0, horizon=0, run=_run)
    # a limit of exactly 0 is a limit (close-only strategy), not "no limit"
    for lim in [(None, 0, None), (0, None, None), (None, None, 0), (0, 0, 0)]:
        cfg = dict(name="zero limits=%s" % (lim,), dt=200, limits=list(lim))
        c04.explore(rep, {"C01"}, alphabet_for(False), tier, [cfg], depth_q=2, depth_t=3, dev_k_q=0, dev_k_t=0, horizon=0, run=_run)
    for lim in [(5, 9, None), (None, 9, 12), (None, None, None)]:
        cfg = dict(name="line limits=%s" % (lim,), dt=200, limits=list(lim), line=True)
        c04.explore(rep, {"C01"}, alphabet_for(True), tier, [cfg], depth_q=4, depth_t=5, dev_k_q=0, dev_k_t=0, horizon=0, run=_run)
    rep.need("accepted", "refused_by_exposure", "replace_decisions", "accepted_near_limit", "closures")
    rep.bounds.update(limit_configs=[list(l) for l in lims], deep_configs=[list(l) for l in deep])
    rep.rule = "for each fixed limit configuration (order, selection, market in {None, tight, loose}): BFS with canonical-state dedup over histories of placements (13 templates: back/lay passive/matched, over-limit, LOC, MOC, other selections), replacements to 4 prices, cancels and market events (fills, suspension, turn in-play with SP, closure win/lose); every request judged; line-market configuration separately"
    rep.assumptions = [
        "acknowledgement discipline enforced by the driver: no new order on a selection while one of the strategy's orders there is PENDING",
        "a PENDING order is counted in full in the per-update recomputation (it was counted in full when accepted)",
        "one-directional: refusing an order the brute force would allow is counted (conservative_refusals), not flagged",
        "tolerance 0.02 + 0.005 x matched (flumine works on the 2dp average price)",
    ]
    return rep.finish()


def replay(rep):
    c = rep["case"]
    r = _run((c["history"], c["cfg"]))
    for d in r["violations"]:
        print(d["key"], d["detail"])
    return 1 if r["violations"] else 0
