"""C03 Order lifecycle: one operation in flight, legal transitions, finality — E1 simx part
(simulated exchange) + E2 livex part (Betfair / Betdaq doubles, added by props/c03_live when built)."""
from mc import core
from props import simlife as L, c04, livelife, betdaqlife

CLAUSES = {
    "C03.a": "every status change follows the documented lifecycle",
    "C03.b": "cancel/update/replace accepted iff EXECUTABLE with bet id, compatible type and valid arguments; otherwise OrderUpdateError without side effects",
    "C03.c": "an order that was sent and reported complete never becomes live again and its matched size no longer changes",
}
ENABLED = {"C03"}


def alphabet(dt, rich):
    A = [L.tick(dt)]
    for e in ["T21", "T22", "SUS", "OPN", "RM1", "IP", "CL", "SUSRM1"] + (["RM2", "T2x", "IP0"] if rich else []):
        A.append(L.tick(dt, e))
    for p in ["PBn", "XBp", "XB", "FOK", "PBm", "LOC", "MOC"] + (["PB", "PL", "PBv", "PLm", "PBp"] if rich else []):
        A.append(L.tick(dt, "Q", [L.P(p)]))
    for i in (0, 1):
        A.append(L.tick(dt, "Q", [["C", i, None]]))
        A.append(L.tick(dt, "Q", [["U", i, "PERSIST"]]))
        A.append(L.tick(dt, "Q", [["R", i, 2.3]]))
        if rich or i == 0:
            A.append(L.tick(dt, "Q", [["C", i, 2.0]]))
            A.append(L.tick(dt, "Q", [["C", i, 9.0]]))
            A.append(L.tick(dt, "Q", [["U", i, "LAPSE"]]))
            A.append(L.tick(dt, "Q", [["R", i, 2.1]]))
            A.append(L.tick(dt, "Q", [["R", i, 2.0]]))
    # two requests in the same callback (second must be rejected: one operation in flight)
    A.append(L.tick(dt, "Q", [["C", 0, None], ["R", 0, 2.3]]))
    A.append(L.tick(dt, "Q", [["U", 0, "PERSIST"], ["C", 0, None]]))
    # batched in a transaction with an explicit execute() in the middle (nothing may be sent twice)
    A.append(L.tick(dt, "Q", [["TX", [["C", 0, 2.0], ["U", 1, "PERSIST"]], [1]]]))
    A.append(L.tick(dt, "Q", [["TX", [["C", 0, 2.0], L.P("PBn")], [1, 2]]]))
    A.append(L.tick(dt, "Q", [["TX", [["R", 0, 2.3], ["C", 1, None]], [1]]]))
    # a request the order rejects (one is already in flight) inside a batch: it must not be sent with the batch
    A.append(L.tick(dt, "Q", [["TX", [["R", 0, 2.3], ["U", 0, "PERSIST"]], []]]))
    A.append(L.tick(dt, "Q", [["TX", [["C", 0, 2.0], ["U", 0, "PERSIST"], ["R", 0, 2.3]], []]]))
    # an order that was already placed (whatever became of it) is handed to place_order again, also forced
    A.append(L.tick(dt, "Q", [["PX", 0, False]]))
    A.append(L.tick(dt, "Q", [["PX", 0, True]]))
    # request issued together with the market event that completes the order
    A.append(L.tick(dt, "SUS", [["C", 0, None]]))
    A.append(L.tick(dt, "SUS", [["U", 0, "PERSIST"]]))
    A.append(L.tick(dt, "SUS", [["R", 0, 2.3]]))
    A.append(L.tick(dt, "T21", [["C", 0, None]]))
    A.append(L.tick(dt, "T21", [["R", 0, 2.3]]))
    A.append(L.tick(dt, "RM1", [["C", 0, None]]))
    A.append(L.tick(dt, "IP", [["C", 0, None]]))
    # a placement issued just before the suspension arrives (still in flight when the next request is refused)
    A.append(L.tick(dt, "SUS", [L.P("PBn")]))
    return A


def _run(args):
    hist, cfg = args
    return L.run_history(hist, ENABLED, cfg)


NOISO = dict(name="fast-noiso", dt=200, config=dict(simulated_strategy_isolation=False))
CFGS_Q = [dict(name="fast", dt=200), dict(name="slow", dt=100), dict(name="slow-nopersist", dt=100, persistence=False), NOISO]
CFGS_T = [dict(name="fast-rich", dt=200, rich=True), dict(name="slow", dt=100), dict(name="slow-nopersist", dt=100, persistence=False), dict(name="slower", dt=60), NOISO]


def run(tier):
    rep = core.Report("C03", tier, "E1 simx")
    cfgs = CFGS_T if tier == "thorough" else CFGS_Q
    c04.explore(rep, ENABLED, alphabet, tier, cfgs, depth_q=3, depth_t=4, dev_k_q=2, dev_k_t=3, horizon=7, run=_run)
    rep.need("request_accepted", "request_rejected", "request_rejected_while_in_flight_or_final", "response_to_inflight_request")
    rep.rule = "BFS with canonical-state dedup + deviation-bounded histories of the real simulated exchange; every _update_status call recorded (prev,new,site); every request judged against the acceptance rule with a before/after snapshot"
    rep.assumptions = [
        "stutter transitions (EXECUTABLE->EXECUTABLE, COMPLETE->COMPLETE, PENDING->PENDING) are legal",
        "matched size may change after completion only by the void on removal of the order's runner (C04/C09 own that)",
        "refusals by controls (return False) are judged by C02, not here",
    ]
    livelife.explore_live(rep, ENABLED, tier)
    betdaqlife.explore_betdaq(rep, ENABLED, tier)
    rep.engine = "E1 simx + E2 livex"
    return rep.finish()


def replay(rep):
    c = rep["case"]
    if "betdaq" in c:
        return betdaqlife.replay_betdaq(c, ENABLED)
    if "path" in c:
        return livelife.replay_live(c, ENABLED)
    r = L.run_history(c["history"], ENABLED, c.get("cfg"))
    for d in r["violations"]:
        print(d["key"], d["detail"])
    return 1 if r["violations"] else 0
