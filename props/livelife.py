"""Live-mode (E2) part of the lifecycle / accounting / blotter oracles: the simlife.Life bundle evaluated
after every explorer event of a livex exploration (handler boundaries)."""
from mc import core, livex
from props import simlife as L

A = dict(sel=1, side="BACK", price=2.2, size=5.0)
B = dict(sel=2, side="LAY", price=3.0, size=4.0)
SCRIPTS = {
    "place-cancel": [(0, ["P", A]), (0, ["C", 0, None])],
    "place-cancelpart-cancel": [(0, ["P", A]), (0, ["C", 0, 2.0]), (0, ["C", 0, None])],
    "place-update-cancel": [(0, ["P", A]), (0, ["U", 0, "PERSIST"]), (0, ["C", 0, None])],
    "place-replace-cancel": [(0, ["P", A]), (0, ["R", 0, 2.4]), (0, ["C", 0, None])],
    "place-cancel-replace": [(0, ["P", A]), (0, ["C", 0, 2.0]), (0, ["R", 0, 2.4])],
    "place2-cancel2": [(0, ["PP", [A, B]]), (0, ["CC", [[0], [1]]])],
    "two-trades": [(0, ["P", A]), (0, ["P", dict(A, price=2.4)]), (0, ["C", 0, None])],
}


class LiveLife(L.Life):
    def __init__(self, enabled, meta):
        super().__init__(enabled, [], extra={"cfg": None})
        self.meta = meta
        self.world = None

    def v(self, clause, key, detail, once=None):
        if once is not None:
            if (clause, once) in self.reported:
                return
            self.reported.add((clause, once))
        w = self.world
        path = [list(e) for e in (w.trace if w else [])]
        self.viol.append(core.v(clause, ("live",) + tuple(key), detail, dict(meta=self.meta, path=path), size=len(path) * 100 + len(str(self.meta))))

    # status / trade_status / pre_action / post_action come from Life
    def post_action(self, w, st, market, act, o, out):
        self.world = w
        if act[0] in ("C", "U", "R") and out is True and o is not None and "C03" in self.en:
            inflight = [t for t in w.pool.tasks if t.state != "done" and t.package is not None and any(x is o for x in t.package._orders)]
            # an asynchronous placement is over at the exchange once the bet exists and the stream has reported it
            # (the order knows its bet id); what is still in transit is only the "PENDING" acknowledgement
            inflight = [t for t in inflight if not (t.package.package_type.name == "PLACE" and getattr(t.package, "async_", False) and o.bet_id is not None)]
            self.c("clause:C03.b")
            self.c("live_requests_accepted")
            if len(inflight) > 1:  # the request just accepted is one of them
                self.v("C03.b", ("two-in-flight", {"C": "cancel", "U": "update", "R": "replace"}[act[0]], "accepted-while-outstanding"), "request accepted while %d earlier operation(s) on the order are still outstanding at the exchange" % (len(inflight) - 1))
        if act[0] in ("P", "C", "U", "R"):
            return super().post_action(w, st, market, act, o, out)

    def orders(self, w, st, market, orders):
        # live: sizes of a locally complete order may still catch up with the exchange (C11 owns that);
        # finality of the complete flag is checked in after_event
        self.world = w

    def pre_action(self, w, st, market, act, o):
        self.world = w
        if act[0] in ("P", "C", "U", "R"):
            return super().pre_action(w, st, market, act, o)

    def status(self, w, o, prev, new, site):
        self.world = w
        return super().status(w, o, prev, new, site)

    def trade_status(self, w, t, prev, new, site):
        self.world = w
        return super().trade_status(w, t, prev, new, site)

    def after_event(self, w, ev):
        """handler boundary: every task is either not started, blocked inside the exchange call or finished"""
        self.world = w
        self.upd += 1
        if any(t.state == "at_post" for t in w.pool.tasks):
            # a response handler has not run yet; trades are not inside `with trade:` at this point either
            pass
        for m in w.framework.markets:
            if "C10" in self.en:
                self._c10(w, m)
            if "C15" in self.en:
                self._c15(w, m)
            if "C03" in self.en:
                for o in m.blotter:
                    if id(o) in self.sent_complete:
                        self.c("clause:C03.c")
                        if not o.complete:
                            self.v("C03.c", ("handler", "complete-flag", L.sname(o.status)), "order reported complete is live again (%s)" % L.sname(o.status), once=(id(o), "live"))
                    elif o.complete and L.sname(o.status) == "EXECUTION_COMPLETE":
                        self.sent_complete[id(o)] = o.size_matched


def _job(args):
    name, budgets, fault, enabled = args[:4]
    async_place = bool(args[4]) if len(args) > 4 else False
    meta = dict(script=name, budgets=budgets, fault=fault, async_place=async_place)
    viol, counts = [], {}
    holder = {}
    fp = None
    if fault:
        k, f = fault
        if f.startswith("transport"):
            # a transport / API error on the k-th call (the request is retried by the execution layer)
            fp = {k: {"transport": "before" if f.endswith("before") else "after", "error": "APIError"}}
        else:
            fp = {k: {"per": [f]}}

    def mk():
        h = LiveLife(enabled, meta)
        holder["h"] = h
        w = livex.LiveWorld(SCRIPTS[name], hooks=h, budgets=budgets, fault_plan=fp, strategy_kw=dict(max_live_trade_count=2), async_place=async_place)
        h.world = w
        w.start()
        return w

    def chk(w, path):
        h = holder["h"]
        viol.extend(h.viol)
        core.merge_dict_counts(counts, h.counts)
        if w.handler_exceptions:
            viol.append(core.v(sorted(enabled)[0] + ".a", ("live", "handler", "exception"), "handler raised: %s" % w.handler_exceptions[0][-300:], dict(meta=meta, path=[list(e) for e in w.trace])))

    st = livex.explore(mk, chk, max_depth=30, cap=40000)
    best = {}
    for d in viol:
        k = tuple(d["key"])
        if k not in best or len(d["case"]["path"]) < len(best[k]["case"]["path"]):
            best[k] = d
    return dict(violations=list(best.values()), counts=counts, stats=st, meta=meta)


def explore_live(rep, enabled, tier):
    """adds the E2 part to a report: every interleaving of requests, sends, replies, FIFO snapshots,
    one duplicate, one exchange fill/lapse for the scripts above (+ single-call faults)."""
    thorough = tier == "thorough"
    b = dict(fill=1, lapse=1 if thorough else 0, dup=1 if thorough else 0)
    jobs = [(name, b, None, sorted(enabled)) for name in SCRIPTS]
    for name in ("place-cancel", "place-cancelpart-cancel", "place-replace-cancel"):
        for k in (0, 1):
            for f in ("TIMEOUT", "FAILURE:ERROR_IN_ORDER") + (("TIMEOUT_APPLIED",) if thorough else ()):
                jobs.append((name, dict(fill=1, lapse=0, dup=0), (k, f), sorted(enabled)))
    for name in ("place-cancel", "place-cancelpart-cancel", "place-replace-cancel", "place-update-cancel"):
        for f in ("transport-before", "transport-after"):
            jobs.append((name, dict(fill=0, lapse=0, dup=0), (1, f), sorted(enabled)))
    # asynchronous placement: the reply says PENDING, the stream brings the bet id (possibly before the reply)
    for name in ("place-cancel", "place-replace-cancel"):
        jobs.append((name, dict(fill=0, lapse=0, dup=0), None, sorted(enabled), True))
    n = 0
    for r in core.pmap(_job, jobs, chunk=1):
        rep.add_violations(r["violations"])
        # counts were merged once per executed path (prefixes re-execute): keep them as "evaluations"
        rep.merge_counts(r["counts"])
        st = r["stats"]
        rep.states += st["states"]
        rep.transitions += st["transitions"]
        rep.traces += st["executions"]
        n += st["executions"]
        if st["capped"]:
            rep.caps_hit.append("live %s: execution cap" % (r["meta"],))
        rep.per_level.append(dict(mode="live", job=r["meta"], states=st["states"], executions=st["executions"]))
    rep.count("live_executions", n, mandatory=True)
    rep.sample({"mode": "live", "script": "place-cancelpart-cancel", "events": [["S"], ["X_send", 0], ["X_apply", 0], ["D"], ["S"], ["X_send", 1], ["D"], ["S"], ["X_apply", 1]]})
    rep.assumptions.append("live part: exchange double + controlled pool at handler granularity (mc/livex.py); oracles evaluated after every explorer event")
    return n


def replay_live(case, enabled):
    m = case["meta"]
    fp = None
    if m.get("fault"):
        f = m["fault"][1]
        fp = {m["fault"][0]: ({"transport": "before" if f.endswith("before") else "after", "error": "APIError"} if f.startswith("transport") else {"per": [f]})}
    h = LiveLife(set(enabled), m)
    w = livex.LiveWorld(SCRIPTS[m["script"]], hooks=h, budgets=dict(m["budgets"]), fault_plan=fp, strategy_kw=dict(max_live_trade_count=2), async_place=bool(m.get("async_place")))
    h.world = w
    w.start()
    try:
        for ev in case["path"]:
            w.do(tuple(ev))
            print(ev, [(o.status.name, o.bet_id, o.size_remaining) for mm in w.framework.markets for o in mm.blotter])
    finally:
        w.stop()
    for d in h.viol:
        print(d["key"], d["detail"])
    return 1 if h.viol else 0
