"""C20 Market closure is processed once, with results, for the right strategies — E1 simx part
(simulation: every sequence of open / CLOSED / repeated CLOSED / re-open updates x strategies x
clients x orders; several markets closing in every order) + E2 live part (added with livex)."""
import itertools
import json

from mc import core, simx
from props import simlife as L

CLAUSES = {
    "C20.a": "after the first closing update every order carries the runner's result and the market's settlement terms",
    "C20.b": "process_closed_market is invoked once per closing update for subscribed strategies (and none for the others), with the closing book",
    "C20.c": "simulation: per closure episode the orders are reported cleared once (if any) and one cleared-market summary per client is emitted",
    "C20.d": "the market is marked closed; data arriving again re-opens it with cleared flags reset",
    "C20.e": "runner accounting and middleware state of the market are released when it is removed",
}

LETTERS = {
    "U": ["Q"],
    "T": ["T", 1, [[2.1, 8]]],
    "CL": ["CL", {1: "WINNER", 2: "LOSER"}],
    "CL0": ["CL", {}],  # closed, results not yet declared (runners still ACTIVE); a later CL carries them
    "MD": ["MD"],
    "OPN": ["OPN"],
    "SUS": ["SUS"],
    "CLx": ["CL", {1: "LOSER", 2: "WINNER"}],  # re-settlement: the result is changed by a later closing book
}


def statuses(lines):
    """market status of every generated line (the stream cache keeps the last definition)."""
    st, out = None, []
    for ln in lines:
        d = json.loads(ln)
        md = d["mc"][0].get("marketDefinition")
        if md:
            st = md["status"]
        out.append(st)
    return out


class Hooks:
    def __init__(self):
        self.closed = []  # (strategy idx, market id, book status, runner statuses, publish time)
        self.flags = []  # (market id, update no, closed flag, orders_cleared, market_cleared, status)
        self.order_fields = []

    def closed(self, *a):
        pass

    def tick_end(self, w, market, mb):
        self.flags.append((market.market_id, mb.publish_time_epoch, market.closed, list(market.orders_cleared), list(market.market_cleared), mb.status))


def _mk_hooks():
    h = Hooks()
    calls = []

    def closed(w, st, market, mb):
        calls.append((st.idx, market.market_id, mb.status, tuple(((r.selection_id, r.handicap), r.status) for r in mb.runners), mb.publish_time_epoch, market.closed, [(o.runner_status, o.market_type, o.each_way_divisor, (o.selection_id, o.handicap)) for o in market.blotter]))

    h.closed = closed
    h.calls = calls
    return h


def _one(args):
    seqs, n_orders, n_clients, subs, event_proc, mtype = args
    # seqs: one letter sequence per market; subs: per strategy the list of market indices it is subscribed to
    markets = []
    for i, seq in enumerate(seqs):
        never_open = bool(seq) and seq[0] == "NEVER"
        letters = [x for x in seq if x != "NEVER"]
        hcap = mtype == "ASIAN_HANDICAP"
        spec = simx.MarketSpec(
            market_id="1.10000000%d" % (i + 1),
            event_id="30000001",
            sels=((1, -0.5), (1, 0.5), (2, 0)) if hcap else ((1, 0), (2, 0)),
            market_type=mtype,
            ew=4 if mtype == "EACH_WAY" else None,
            book0=L.BOOK0,
            status0="CLOSED" if never_open else "OPEN",
            t0=simx.T0 + (i * 37 if event_proc else i * 3600_000),
        )
        ticks = [[200 + 13 * i, LETTERS[x]] for x in letters]
        if hcap:
            # the same selection id on two handicap lines finishing differently
            ticks = [[dt, (["CL", {"1:-0.5": "LOSER", "1:0.5": "WINNER", "2:0": "LOSER"}] if ev[0] == "CL" and ev[1] else ev)] for dt, ev in ticks]
        markets.append((spec, ticks))
    strategies = []
    for k, mk in enumerate(subs):
        script = {}
        if k == 0:
            acts = [L.P("XB"), L.P("PBn"), L.P("X2")][:n_orders] if n_orders != -1 else [L.P("PBv")]  # -1: one placement that fails (no bet id)
            if mtype == "ASIAN_HANDICAP":
                acts = [L.P("XB", hc=-0.5), L.P("XB", hc=0.5), L.P("X2")][:n_orders]
            if n_clients == 2 and len(acts) > 1:
                pass
            for mi in mk:
                if len(seqs) > 1 and len(acts) == 1:
                    # several markets: the runner accounting is created market by market, interleaved
                    # (A runner 1, B runner 1, ..., then A runner 2, ...)
                    script[(mi, 0)] = [list(acts[0])]
                    if len([x for x in seqs[mi] if x != "NEVER"]) >= 2:
                        script[(mi, 1)] = [L.P("X2")]
                else:
                    script[(mi, 0)] = [list(a) for a in acts]
        else:
            # the other strategies only consult their runner accounting (a context without any order)
            for mi in mk:
                script[(mi, 0)] = [["W", 1, 0.5 if mtype == "ASIAN_HANDICAP" else 0]]
        strategies.append(dict(script=script, markets=list(mk), kw=dict(max_order_exposure=None, max_selection_exposure=None, max_live_trade_count=5), name="S%d" % k, client=(k % n_clients)))
    h = _mk_hooks()
    L._install_created_tracking()
    w = simx.SimWorld(markets, strategies, hooks=h, n_clients=n_clients, event_processing=event_proc, auditor=True)
    w.run()
    out = []
    counts = {"clause:C20.a": 0, "clause:C20.b": 0, "clause:C20.c": 0, "clause:C20.d": 0, "clause:C20.e": 0, "closing_updates": 0, "repeated_closes": 0, "reopens": 0, "episodes_with_orders": 0, "unsubscribed_strategy_markets": 0}
    case = dict(args=[list(map(list, seqs)), n_orders, n_clients, [list(s) for s in subs], event_proc, mtype])
    mode = "sim"
    if w.run_exception is not None:
        out.append(core.v("C20.b", (mode, "-", "exception", type(w.run_exception).__name__), "run raised %r\n%s" % (w.run_exception, getattr(w, "run_traceback", "")[-500:]), case))
        return dict(violations=out, counts=counts, outcome=None)
    sig = []
    ev = w.recorder.events
    for mi, (spec, ticks) in enumerate(markets):
        mid = spec.market_id
        lines, pts = spec.gen(ticks)
        sts = statuses(lines)
        never_open = spec.status0 == "CLOSED"
        # closing updates and episodes (a market never seen open is unknown to the framework until it opens)
        known = False
        episodes = []  # list of lists of update indices
        prev_closed = False
        closing = []
        for u, s in enumerate(sts):
            if s != "CLOSED":
                known = True
                prev_closed = False
                continue
            if not known:
                continue
            closing.append(u)
            if not prev_closed:
                episodes.append([u])
            else:
                episodes[-1].append(u)
                counts["repeated_closes"] += 1
            prev_closed = True
        counts["closing_updates"] += len(closing)
        for u in range(1, len(sts)):
            if sts[u] != "CLOSED" and sts[u - 1] == "CLOSED" and known:
                counts["reopens"] += 1
        has_orders = n_orders > 0 and 0 in [k for k, mk in enumerate(subs) if mi in mk] and any(s != "CLOSED" for s in sts[:1])
        m = w.framework.markets.markets.get(mid)
        n_ord = len(list(m.blotter)) if m is not None else 0
        # b) callbacks
        for k, mk in enumerate(subs):
            got = [c for c in h.calls if c[0] == k and c[1] == mid]
            exp = len(closing) if mi in mk else 0
            if mi not in mk:
                counts["unsubscribed_strategy_markets"] += 1
            counts["clause:C20.b"] += 1
            if len(got) != exp:
                ordinal = "repeat" if len(closing) > len(episodes) else "first"
                out.append(core.v("C20.b", (mode, ordinal, "callback count", "subscribed" if mi in mk else "unsubscribed"), "strategy %d market %s: %d process_closed_market calls for %d closing updates (subscribed=%s)" % (k, mid, len(got), len(closing), mi in mk), case))
            for c in got:
                if c[2] != "CLOSED" or not c[5]:
                    out.append(core.v("C20.b", (mode, "-", "closing book", "-"), "callback got book status %s, market.closed=%s" % (c[2], c[5]), case))
                if c[4] not in [pts[u] for u in closing]:
                    out.append(core.v("C20.b", (mode, "-", "closing book", "time"), "callback with a book that is not a closing update", case))
                # a) settlement fields on every order at the callback
                book_status = dict(c[3])
                for (rs, mt, ewd, sel) in c[6]:
                    counts["clause:C20.a"] += 1
                    # every order carries the runner's result as published by THIS closing book
                    if rs != book_status.get(tuple(sel)) or mt != mtype or (mtype == "EACH_WAY" and ewd != 4):
                        out.append(core.v("C20.a", (mode, "-", "settlement field", "-"), "order at closure has runner_status=%r (closing book says %r) market_type=%r each_way_divisor=%r" % (rs, book_status.get(sel), mt, ewd), case))
        # c) cleared reports per episode
        co = [e for e in ev if type(e).__name__ == "ClearedOrdersMetaEvent" and e.event and e.event[0].market_id == mid]
        cm = [e for e in ev if type(e).__name__ == "ClearedMarketsEvent" and e.event.orders and e.event.orders[0].market_id == mid]
        counts["clause:C20.c"] += 1
        exp_co = len(episodes) if n_ord else 0
        if n_ord and episodes:
            counts["episodes_with_orders"] += len(episodes)
        ordinal = "repeat" if len(closing) > len(episodes) else ("reopen" if len(episodes) > 1 else "first")
        if len(co) != exp_co:
            out.append(core.v("C20.c", (mode, ordinal, "cleared orders count", "-"), "market %s: %d ClearedOrdersMetaEvent for %d closure episode(s) (%d closing updates, %d orders)" % (mid, len(co), len(episodes), len(closing), n_ord), case))
        if len(cm) != len(episodes) * n_clients:
            out.append(core.v("C20.c", (mode, ordinal, "cleared market count", "-"), "market %s: %d ClearedMarketsEvent for %d episode(s) x %d client(s)" % (mid, len(cm), len(episodes), n_clients), case))
        # d) flags
        if m is not None and sts:
            counts["clause:C20.d"] += 1
            if (sts[-1] == "CLOSED" and known) != bool(m.closed):
                out.append(core.v("C20.d", (mode, "-", "closed flag", "-"), "market %s ends with status %s but closed=%s" % (mid, sts[-1], m.closed), case))
            for (fm, pt, closed, oc, mc, status) in h.flags:
                if fm == mid and status != "CLOSED":
                    if closed or oc or mc:
                        out.append(core.v("C20.d", (mode, "-", "reopen flags", "-"), "open update but closed=%s orders_cleared=%s market_cleared=%s" % (closed, oc, mc), case))
                        break
        # e) released state at the end of the run for markets that ended closed
        if m is not None and sts and sts[-1] == "CLOSED" and known:
            counts["clause:C20.e"] += 1
            try:
                left = [k for st in w.framework.strategies for k in st._invested if k[0] == mid]
                mw_left = [mid for mw in w.framework._market_middleware if hasattr(mw, "markets") and mid in mw.markets]
            except AttributeError:
                left, mw_left = [], []
                counts["clause:C20.e-not-evaluated"] = counts.get("clause:C20.e-not-evaluated", 0) + 1
            if left or mw_left:
                out.append(core.v("C20.e", (mode, "-", "leftover state", "invested" if left else "middleware"), "closed market %s still has runner contexts %s / middleware state %s" % (mid, left, mw_left), case))
        sig.append((len(closing), len(episodes), len(co), len(cm), bool(m and m.closed)))
    return dict(violations=_dedup(out), counts=counts, outcome=str(sig))


def _dedup(vs, per_key=1):
    seen, out = {}, []
    for d in vs:
        k = tuple(d["key"])
        seen[k] = seen.get(k, 0) + 1
        if seen[k] <= per_key:
            out.append(d)
    return out


# ---- simulation with listener filters: the closing update reaches every strategy whatever its filters ----
FILTERS = ({}, {"max_inplay_seconds": 4}, {"inplay": False}, {"inplay": True}, {"seconds_to_start": 5}, {"inplay": False, "seconds_to_start": 8}, {"inplay": True, "max_inplay_seconds": 2}, {"seconds_to_start": 5, "max_inplay_seconds": 4})


def _filters_one(args):
    """one market that turns in-play and closes well after every filter window has shut; strategies whose listeners
    filter the OPEN updates (time to start, in-play, in-play window): each still gets the closing update once, the
    market is closed, its orders (placed by the unfiltered strategy) are settled and reported cleared."""
    fis, with_order = args
    ticks = [[3000, L.EVENTS["Q"]], [3000, L.EVENTS["Q"]], [3000, L.EVENTS["IP"]], [3000, L.EVENTS["Q"]], [3000, L.EVENTS["Q"]], [3000, L.EVENTS["CL"]]]
    kw = dict(max_order_exposure=None, max_selection_exposure=None, max_live_trade_count=5)
    strategies = [dict(script={(0, 0): [L.P("XB")]} if with_order else {}, name="all", kw=dict(kw))]
    for k, fi in enumerate(fis):
        strategies.append(dict(script={}, name="f%d" % k, kw=dict(kw), listener_kwargs=dict(FILTERS[fi])))
    w = simx.SimWorld([(simx.MarketSpec(book0=L.BOOK0, market_time_offset_s=10), ticks)], strategies).run()
    out = []
    counts = {"clause:C20.b": 0, "clause:C20.a": 0, "filtered_closures": 0}
    case = dict(filters=[list(fis), with_order])
    if w.run_exception is not None:
        out.append(core.v("C20.b", ("sim", "filters", "exception", "-"), "run raised %r" % (w.run_exception,), case))
        return dict(violations=out, counts=counts)
    mid = w.markets_in[0][0].market_id
    for idx, sd in enumerate(strategies):
        counts["clause:C20.b"] += 1
        counts["filtered_closures"] += 1
        n = sum(1 for c in w.closed_calls if c == (idx, mid))
        if n != 1:
            out.append(core.v("C20.b", ("sim", "filters", "callback count", "-"), "strategy %s with listener filters %s: process_closed_market called %d times for the one closing update" % (sd["name"], sd.get("listener_kwargs", {}), n), case))
    m = w.market(0)
    counts["clause:C20.a"] += 1
    if m is not None and not m.closed:
        out.append(core.v("C20.d", ("sim", "filters", "closed flag", "-"), "market not marked closed after its closing update", case))
    if with_order:
        orders = list(w.all_orders())
        if not orders or any(o.runner_status is None for o in orders):
            out.append(core.v("C20.a", ("sim", "filters", "runner result", "-"), "orders without a runner result after the close: %s" % [(o.selection_id, o.runner_status) for o in orders], case))
        cm = [e for e in w.recorder.events if type(e).__name__ == "ClearedMarketsEvent"]
        co = [e for e in w.recorder.events if type(e).__name__ == "ClearedOrdersMetaEvent"]
        # one historical stream per distinct set of listener filters: the file is replayed once per stream (the market
        # re-opens with the second stream's first update and closes again), one report per replay
        n_streams = len({json.dumps(sd.get("listener_kwargs", {}), sort_keys=True) for sd in strategies})
        if len(cm) != n_streams or len(co) != n_streams:
            out.append(core.v("C20.c", ("sim", "filters", "cleared count", "-"), "%d cleared-orders and %d cleared-market reports for %d replay(s) of the closure" % (len(co), len(cm), n_streams), case))
    return dict(violations=_dedup(out), counts=counts)


# ---- live mode (E2): closure through the real queue, removal only after an hour, recorder mode ----
LIVE_ALPHA = (("open", 0), ("close", 0), ("open", 1), ("close", 1), ("tick", 59), ("tick", 61), ("poll",), ("close", 2))  # market 2 is never seen open


def _live_one(seq):
    from mc import livex
    from flumine.events import events

    mids = ["1.100000001", "1.100000002", "1.100000003"]
    w = livex.LiveWorld([], strategies=("S0", "S1", "S2", "S3", "S4"), markets=mids[:2])
    # ("adopt", 1) first: the framework starts with a bet of its own resting in market 1 - the order stream creates
    # that market before its first book arrives (a restart with an open position); its sibling arrives by book
    adopt = bool(seq) and seq[0][0] == "adopt"
    if adopt:
        w.late_books = True
    w.start()
    if adopt:
        from flumine.order.trade import Trade
        from flumine.order.ordertype import LimitOrder

        o0 = Trade(mids[1], 1, 0, w.strategies[0]).create_order("BACK", LimitOrder(2.0, 2.0))
        bet0 = w.exchange.new_bet(mids[1], o0.create_place_instruction(), "verif")
        w.exchange.publish(mids[1], [bet0])
        while w.exchange.snap_queue:
            w.do(("D",))
        if w.framework.markets.markets.get(mids[1]) is None or w.framework.markets.markets[mids[1]].market_book is not None:
            raise core.HarnessError("adopt: market 1 was not created by the order stream before its book")
        while w.pending_books:
            w.do(("B",))
        seq = seq[1:]
    out = []
    counts = {"clause:C20.b": 0, "clause:C20.d": 0, "clause:C20.f": 0, "live_closures": 0, "live_removals": 0, "live_reopens": 0, "live_kept_under_an_hour": 0}
    case = dict(live=([["adopt", 1]] if adopt else []) + [list(e) for e in seq])
    if adopt:
        counts["live_adopted_runs"] = 1
    try:
        fw = w.framework
        s0, s1, s2, s3, s4 = w.strategies
        # S1: empty market filter (receives every closure), S2: subscribed to another stream; S3 / S4: no market
        # filter at all (None / an empty list - e.g. sports-data-only strategies) on another stream: not "empty filter"
        s1.market_filter = {}
        s1.streams = []
        s2.streams = [type("OtherStream", (), {"stream_id": 424242})()]
        s3.market_filter = None
        s3.streams = [type("OtherStream", (), {"stream_id": 424243})()]
        s4.market_filter = []
        s4.streams = [type("OtherStream", (), {"stream_id": 424244})()]
        calls = {0: 0, 1: 0, 2: 0, 3: 0, 4: 0}
        for k, st in enumerate(w.strategies):
            def pcm(market, mb, k=k):
                calls[k] += 1
            st.process_closed_market = pcm
        # the initial books dispatched at start-up created both markets open
        model = {m: dict(present=(m != mids[2]), closed=False, closed_at=None) for m in mids}
        exp_calls = {0: 0, 1: 0, 2: 0, 3: 0, 4: 0}
        w.api.session = w.session  # the closure worker calls the API outside the execution pool
        fetched = {m: {"ClearedOrdersEvent": 0, "ClearedMarketsEvent": 0} for m in mids}  # since the flags were last reset
        for ev in seq:
            if ev[0] == "tick":
                w.clock_ms += ev[1] * 60_000
                w.set_clock()
                continue
            if ev[0] == "poll":
                # the real closure worker: for every closed market fetch the cleared orders and the market summary
                # once per client (the cleared flags remember what was fetched; a re-open resets them)
                from flumine import worker as _worker

                w.clock_ms += 1000
                w.set_clock()
                _worker.poll_market_closure({}, fw)
                got = []
                while not fw.handler_queue.empty():
                    got.append(fw.handler_queue.get())
                for e in got:
                    nm = type(e).__name__
                    mid_e = getattr(e.event, "market_id", None) or (e.event.orders[0].market_id if e.event.orders else None)
                    if nm in ("ClearedOrdersEvent", "ClearedMarketsEvent") and mid_e in fetched:
                        fetched[mid_e][nm] += 1
                    w.dispatch(e)
                counts["live_polls"] = counts.get("live_polls", 0) + 1
                for m2, s2_ in model.items():
                    if s2_["present"] and s2_["closed"] and m2 in {m.market_id for m in fw.markets}:
                        counts["clause:C20.c"] = counts.get("clause:C20.c", 0) + 1
                        counts["live_polled_closed_markets"] = counts.get("live_polled_closed_markets", 0) + 1
                        if fetched[m2] != {"ClearedOrdersEvent": 1, "ClearedMarketsEvent": 1}:
                            which = "cleared market count" if fetched[m2]["ClearedMarketsEvent"] != 1 else "cleared orders count"
                            out.append(core.v("C20.c", ("live", "reopen" if s2_.get("episodes", 0) > 1 else "first", which, "-"), "after %s: closed market %s polled: %s fetched since its flags were last reset (expected one of each per client)" % ([list(x) for x in seq[: seq.index(ev) + 1]], m2, fetched[m2]), case))
                if out:
                    break
                continue
            mid = mids[ev[1]]
            w.clock_ms += 1000
            w.set_clock()
            now = w.clock_ms
            st_ = model[mid]
            # any book for a closed market re-opens it (flags reset); a CLOSED book then closes it again
            fetched[mid] = {"ClearedOrdersEvent": 0, "ClearedMarketsEvent": 0}
            if ev[0] == "close":
                st_["episodes"] = st_.get("episodes", 0) + 1
            if ev[0] == "open":
                w.books[mid] = w._make_book(mid, "OPEN")
                w.dispatch(w._book_event(mid))
                if not st_["present"]:
                    st_.update(present=True, closed=False, closed_at=None)
                elif st_["closed"]:
                    st_["closed"] = False
                    counts["live_reopens"] += 1
            else:
                w.books[mid] = w._make_book(mid, "CLOSED")
                w.dispatch(w._book_event(mid))
                counts["live_closures"] += 1
                if not st_["present"]:
                    st_.update(present=True, closed=False, closed_at=None)
                if not st_["closed"]:
                    st_["closed"] = True
                    st_["closed_at"] = now
                exp_calls[0] += 1
                exp_calls[1] += 1
            # removal is one-directional: a market may only disappear at a closure, and only if it has been
            # closed (since it last closed) for more than an hour; keeping it longer is allowed
            counts["clause:C20.f"] += 1
            present = {m.market_id for m in fw.markets}
            bad = False
            for m2, s2_ in model.items():
                if s2_["present"] and m2 not in present:
                    ok = ev[0] == "close" and s2_["closed"] and now - s2_["closed_at"] > 3600_000
                    if not ok:
                        held = (now - s2_["closed_at"]) / 60000.0 if s2_["closed_at"] else None
                        out.append(core.v("C20.e", ("live", "-", "removal timing", "removed-too-early"), "after %s: market %s was removed although it has been closed for %s minutes" % (list(ev), m2, held), case))
                        bad = True
                    s2_.update(present=False, closed=False, closed_at=None)
                    counts["live_removals"] += 1
                elif s2_["present"] and s2_["closed"] and ev[0] == "close":
                    counts["live_kept_under_an_hour"] += 1
                if not s2_["present"] and m2 in present:
                    out.append(core.v("C20.e", ("live", "-", "removal timing", "reappeared"), "market %s present again without data" % m2, case))
                    bad = True
            if bad:
                break
            counts["clause:C20.d"] += 1
            for m in fw.markets:
                if m.closed and m.elapsed_seconds_closed is None:
                    out.append(core.v("C20.d", ("live", "-", "closed flag", "no-closing-time"), "after %s: market %s is marked closed but carries no closing time (it can never be removed)" % (list(ev), m.market_id), case))
                if bool(m.closed) != model[m.market_id]["closed"]:
                    out.append(core.v("C20.d", ("live", "-", "closed flag", "-"), "after %s: market %s closed=%s expected %s" % (list(ev), m.market_id, m.closed, model[m.market_id]["closed"]), case))
            counts["clause:C20.b"] += 1
            if calls != exp_calls:
                out.append(core.v("C20.b", ("live", "-", "callback count", "subscribed" if (calls[2], calls[3], calls[4]) == (exp_calls[2], exp_calls[3], exp_calls[4]) else "unsubscribed"), "after %s: process_closed_market calls %s, expected %s (S0 subscribed, S1 empty filter, S2 other stream, S3/S4 filter None/[] on other streams)" % (list(ev), calls, exp_calls), case))
                break
        if w.handler_exceptions:
            out.append(core.v("C20.b", ("live", "-", "exception", "-"), w.handler_exceptions[0][-300:], case))
    finally:
        w.stop()
    return dict(violations=_dedup(out), counts=counts, outcome=str((tuple(sorted(calls.items())),)))


def _recorder_one(seq):
    """raw-data (market recorder) mode: dict updates through _process_raw_data / _process_close_market"""
    from mc import livex
    from flumine.events import events

    w = livex.LiveWorld([], strategies=("S0",), markets=["1.100000009"])
    w.start()
    out = []
    counts = {"clause:C20.b": 0, "clause:C20.d": 0, "recorder_closures": 0}
    case = dict(recorder=list(seq))
    try:
        fw = w.framework
        s0 = w.strategies[0]
        sid = s0.streams[0].stream_id
        calls = []
        raws = []
        s0.process_closed_market = lambda market, datum: calls.append((market.market_id, datum.get("marketDefinition", {}).get("status") if isinstance(datum, dict) else "book"))
        s0.process_raw_data = lambda clk, pt, datum: raws.append(datum.get("id"))
        mid = "1.200000001"
        exp_calls, exp_closed, present = 0, False, False
        for n, ev in enumerate(seq):
            w.clock_ms += 1000
            w.set_clock()
            datum = {"id": mid, "rc": []}
            if ev in ("closed", "open-def"):
                datum["marketDefinition"] = {"status": "CLOSED" if ev == "closed" else "OPEN", "eventId": "1", "marketType": "WIN"}
            w.dispatch(events.RawDataEvent((sid, "clk", w.clock_ms, [datum])))
            if not present:
                present = True
            elif exp_closed:
                exp_closed = False  # data arriving again re-opens the market
            if ev == "closed":
                exp_calls += 1
                exp_closed = True
                counts["recorder_closures"] += 1
            counts["clause:C20.b"] += 1
            counts["clause:C20.d"] += 1
            m = fw.markets.markets.get(mid)
            if len(calls) != exp_calls:
                out.append(core.v("C20.b", ("recorder", "-", "callback count", "-"), "after %s: %d process_closed_market calls, expected %d" % (seq[: n + 1], len(calls), exp_calls), case))
                break
            if m is None or bool(m.closed) != exp_closed:
                out.append(core.v("C20.d", ("recorder", "-", "closed flag", "-"), "after %s: market closed=%s expected %s" % (seq[: n + 1], m and m.closed, exp_closed), case))
                break
            if len(raws) != n + 1:
                out.append(core.v("C20.b", ("recorder", "-", "raw data delivery", "-"), "raw datum not delivered to the strategy", case))
                break
        if w.handler_exceptions:
            out.append(core.v("C20.b", ("recorder", "-", "exception", "-"), w.handler_exceptions[0][-300:], case))
    finally:
        w.stop()
    return dict(violations=_dedup(out), counts=counts, outcome="rec")


def run(tier):
    rep = core.Report("C20", tier, "E1 simx + E2 livex")
    thorough = tier == "thorough"
    maxlen = 5 if thorough else 4
    alpha = ("U", "CL", "MD", "OPN", "T", "CL0")
    seqs = []
    for n in range(1, maxlen + 1):
        for s in itertools.product(alpha, repeat=n):
            if "CL" not in s and "CL0" not in s:
                continue
            seqs.append(tuple(s))
    jobs = []
    sub_sets = ([[0]], [[0], [0]], [[0], []], [[0], [0], []])
    for s in seqs:
        for n_orders in (0, 1, 3):
            for n_clients, subs in ((1, sub_sets[0]), (2, sub_sets[1]), (1, sub_sets[2]), (2, sub_sets[3])):
                if not thorough and len(s) == maxlen and (n_clients, len(subs)) != (1, 1):
                    continue
                jobs.append(((s,), n_orders, n_clients, subs, False, "WIN"))
    # the market's only order is a placement the exchange refused (it never got a bet id): still "has orders"
    for s in (("U", "CL"), ("U", "CL", "MD"), ("T", "CL", "OPN", "CL")):
        jobs.append(((s,), -1, 1, sub_sets[0], False, "WIN"))
    # re-settlement: a later closing book changes the result (after a re-open, or as a repeated CLOSED book)
    for s in (("U", "CL", "SUS", "CLx"), ("U", "CL", "SUS", "CL", "MD"), ("U", "CL", "OPN", "CLx"), ("T", "CL", "CLx"), ("U", "CL", "MD", "CLx"), ("U", "CL0", "CLx", "CL"), ("U", "CLx", "OPN", "U", "CL")):
        for n_orders in (1, 3):
            for n_clients, subs in ((1, sub_sets[0]), (2, sub_sets[1])):
                jobs.append(((s,), n_orders, n_clients, subs, False, "WIN"))
    # market never seen open, then (maybe) opening
    for tail in ([], ["MD"], ["OPN", "U", "CL"], ["OPN", "CL", "MD"]):
        for n_orders in (0, 1):
            jobs.append(((("NEVER",) + tuple(tail),), n_orders, 1, sub_sets[1], False, "WIN"))
    # handicap market: one selection id on two lines with different results
    for s in (("U", "CL"), ("U", "CL0", "CL"), ("T", "CL", "MD")):
        for n_orders in (2, 3):
            jobs.append(((s,), n_orders, 1, sub_sets[0], False, "ASIAN_HANDICAP"))
    # several markets closing in every order (sequential files and event-grouped), each-way terms
    base = [("U", "CL"), ("U", "U", "CL", "MD"), ("CL", "OPN", "U", "CL")]
    for perm in itertools.permutations(range(3)):
        for k in (2, 3):
            ms = tuple(base[i] for i in perm[:k])
            for ep in (False, True):
                for subs in ([list(range(k))], [list(range(k)), [0]], [list(range(k)), [k - 1], []]):
                    for mt in ("WIN", "EACH_WAY"):
                        jobs.append((ms, 1, 2 if len(subs) > 1 else 1, subs, ep, mt))
    for r in core.pmap(_one, jobs):
        rep.add_violations(r["violations"])
        rep.merge_counts(r["counts"])
        if r["outcome"]:
            rep.outcomes.add(r["outcome"])
    fj = [((a,), wo) for a in range(len(FILTERS)) for wo in (False, True)] + [((a, b), True) for a in range(len(FILTERS)) for b in range(len(FILTERS)) if a < b]
    for r in core.pmap(_filters_one, fj):
        rep.add_violations(r["violations"])
        rep.merge_counts(r["counts"])
    rep.need("filtered_closures")
    # live mode
    depth = 6
    lj = [seq for n in range(1, depth + 1) for seq in itertools.product(LIVE_ALPHA, repeat=n) if any(e[0] == "close" for e in seq) and (n < depth or (seq[-1][0] == "close" and sum(1 for e in seq if e[0] == "tick") >= 1))]
    lj += [(("adopt", 1),) + seq for n in range(1, 5) for seq in itertools.product(LIVE_ALPHA, repeat=n) if any(e[0] == "close" for e in seq)]
    for r in core.pmap(_live_one, lj):
        rep.add_violations(r["violations"])
        rep.merge_counts(r["counts"])
        rep.outcomes.add(r["outcome"])
    rj = [seq for n in range(1, 6) for seq in itertools.product(("update", "closed", "open-def"), repeat=n) if "closed" in seq]
    for r in core.pmap(_recorder_one, rj):
        rep.add_violations(r["violations"])
        rep.merge_counts(r["counts"])
    rep.sample({"live": [list(e) for e in lj[len(lj) // 2]]})
    jobs = jobs + lj + rj
    rep.need("closing_updates", "repeated_closes", "reopens", "episodes_with_orders", "unsubscribed_strategy_markets", "live_closures", "live_removals", "live_reopens", "live_kept_under_an_hour", "recorder_closures", "live_adopted_runs")
    rep.states = len(jobs)
    rep.transitions = len(jobs)
    rep.traces = len(jobs)
    rep.evaluations = sum(rep.clauses.values())
    rep.nontrivial = len(rep.outcomes)
    rep.sample({"market_sequences": jobs[len(jobs) // 2][0], "orders": jobs[len(jobs) // 2][1], "clients": jobs[len(jobs) // 2][2], "subscriptions": jobs[len(jobs) // 2][3]})
    rep.sample({"market_sequences": jobs[-1][0], "event_processing": jobs[-1][4]})
    rep.bounds = dict(max_sequence=maxlen, letters=list(alpha), markets=[1, 2, 3], clients=[1, 2], strategies=[1, 2, 3], runs=len(jobs))
    rep.rule = "every update sequence of <=%d letters over {open update, trade, CLOSED, repeated CLOSED definition, re-open} containing a close x orders 0/1/3 x clients 1-2 x subscription patterns; market never seen open; 2-3 markets closing in every order, sequentially and event-grouped, WIN and EACH_WAY; distinct_nontrivial = distinct (closing updates, episodes, cleared events) vectors" % maxlen
    rep.assumptions = [
        "callbacks are counted per closing update, cleared reports per closure episode (open -> closed; a re-open starts a new one), as worded in the statement",
        "a market whose first update is already CLOSED is unknown to the framework: only absence of errors and of cleared reports is required",
        "clause e reads strategy._invested and SimulatedMiddleware.markets defensively (not evaluated if renamed)",
        "live mode: two markets, {update, close} of either and clock steps of 59 / 61 minutes in every order up to 6 events; recorder mode: raw dict updates with CLOSED / OPEN definitions",
    ]
    return rep.finish()


def replay(rep):
    c = rep["case"]
    if "live" in c or "recorder" in c or "filters" in c:
        if "filters" in c:
            r = _filters_one((tuple(c["filters"][0]), c["filters"][1]))
        else:
            r = _live_one([tuple(e) for e in c["live"]]) if "live" in c else _recorder_one(tuple(c["recorder"]))
        for d in r["violations"]:
            print(d["key"], d["detail"])
        return 1 if r["violations"] else 0
    a = c["args"]
    r = _one((tuple(tuple(s) for s in a[0]), a[1], a[2], a[3], a[4], a[5]))
    for d in r["violations"]:
        print(d["key"], d["detail"])
    return 1 if r["violations"] else 0
