"""C12 Exchange call faults never strand an order or lose a transaction count — E2 livex fault
enumeration (every per-instruction outcome assignment, cancel reports permuted / missing, transport
errors on attempts 1..4, orders completing between request and response) + E1 simx part."""
import itertools

from mc import core, livex, simx
from props import simlife as L

CLAUSES = {
    "C12.a": "after the request has finished every order of the package is executable or complete (pending only if the placement may yet have been accepted); none is left cancelling/updating/replacing, no trade pending",
    "C12.b": "transaction counts = bets submitted by answered place/replace calls + failed instructions reported",
    "C12.c": "a request is retried no more than the configured number of times",
    "C12.d": "each instruction report is applied to the order it belongs to, also when orders of the package completed meanwhile",
    "C12.e": "no exception escapes the execution handler",
}

ORDERS = [dict(sel=1, side="BACK", price=2.2, size=5.0), dict(sel=2, side="LAY", price=3.0, size=4.0), dict(sel=1, side="LAY", price=1.8, size=3.0)]
OUTCOMES = ("SUCCESS", "FAILURE:BET_TAKEN_OR_LAPSED", "FAILURE:ERROR_IN_ORDER", "FAILURE:INVALID_BET_SIZE", "TIMEOUT")
KIND_ACT = {"cancel": "CC", "update": "UU", "replace": "RR"}


def build_path(kind, n, pre, mid):
    """pre: order indices completed (exchange lapse + snapshot) after the request was issued but before it
    is sent; mid: indices completed (fill + snapshot) between send and reply."""
    script = [(0, ["PP", ORDERS[:n]])]
    path = [("S",), ("X_send", 0)]
    if kind == "place":
        for i in mid:
            path.append(("EX_fill_idx", i, "all"))
        path += [("D*",), ("X_apply", 0), ("D*",), ("ACCEPT*",), ("D*",)]
        return script, path, 0
    path += [("X_apply", 0), ("D*",)]
    if kind == "cancel":
        script.append((0, ["CC", [[i] for i in range(n)]]))
    elif kind == "update":
        script.append((0, ["UU", [[i, "PERSIST"] for i in range(n)]]))
    else:
        script.append((0, ["RR", [[i, round(ORDERS[i]["price"] + 0.2, 2)] for i in range(n)]]))
    path.append(("S",))
    for i in pre:
        path.append(("EX_lapse_idx", i))
    if pre:
        path.append(("D*",))
    path.append(("X_send", 1))
    for i in mid:
        path.append(("EX_fill_idx", i, "all"))
    if mid:
        path.append(("D*",))
    path.append(("X_apply", 1))
    path.append(("D*",))
    return script, path, 1


def run_path(w, path):
    """executes a path with symbolic events resolved against the current world; retries spawn new tasks
    which are sent/applied in order until the request has finished."""
    for ev in path:
        if ev[0] == "ACCEPT*":
            mode = getattr(w, "accept_mode", None)
            while mode and w.exchange.pending_async:
                w.budgets["fill"] = 9
                w.do(("EX_accept", "filled") if mode == "accept-filled" else ("EX_accept",))
        elif ev[0] == "D*":
            while w.exchange.snap_queue:
                w.do(("D",))
        elif ev[0] in ("EX_fill_idx", "EX_lapse_idx"):
            bets = sorted(w.exchange.bets.values(), key=lambda b: int(b.bet_id))
            if ev[1] < len(bets) and bets[ev[1]].status == "E":
                w.budgets["fill"] = w.budgets["lapse"] = 9
                if ev[0] == "EX_fill_idx":
                    w.do(("EX_fill", bets[ev[1]].bet_id, ev[2]))
                else:
                    w.do(("EX_lapse", bets[ev[1]].bet_id))
        elif ev[0] in ("X_send", "X_apply"):
            # the n-th request: run its task and every retry task it spawns to completion in order
            tasks = [t for t in w.pool.tasks if t.state != "done"]
            if not tasks:
                continue
            t = tasks[0]
            i = w.pool.tasks.index(t)
            if ev[0] == "X_send" and t.state == "new":
                w.do(("X_send", i))
            elif ev[0] == "X_apply":
                guard = 0
                while True:
                    guard += 1
                    if guard > 20:
                        raise core.HarnessError("retry loop does not terminate")
                    tasks = [t for t in w.pool.tasks if t.state != "done"]
                    if not tasks:
                        break
                    t = tasks[0]
                    i = w.pool.tasks.index(t)
                    w.do(("X_send", i) if t.state == "new" else ("X_apply", i))
        else:
            w.do(ev)


def _limit_for(n):
    """packages of two orders are sent through a client without an hourly limit (a legal setting): it is never
    blocked, but what it sends is counted all the same"""
    return None if n == 2 else 5000


def _one(args):
    kind, n, per, pre, mid, cancel_order, transport, async_place = args
    script, path, call_idx = build_path(kind, n, pre, mid)
    fault_plan = {}
    # attempt indices: call 0 is the initial placement (attempt 0); the request under test starts at attempt `call_idx`
    if transport:
        nerr, err, when = transport
        for a in range(nerr):
            fault_plan[call_idx + a] = {"transport": when, "error": err}
        if per or cancel_order is not None:
            fault_plan[call_idx + nerr] = {"per": list(per), "cancel_order": cancel_order}
    else:
        fault_plan[call_idx] = {"per": list(per), "cancel_order": cancel_order}
    w = livex.LiveWorld(script, fault_plan=fault_plan, async_place=bool(async_place), strategy_kw=dict(max_live_trade_count=5), budgets=dict(fill=9, lapse=9), transaction_limit=_limit_for(n))
    w.accept_mode = async_place if isinstance(async_place, str) else None
    w.start()
    out = []
    counts = {"clause:C12.a": 0, "clause:C12.b": 0, "clause:C12.c": 0, "clause:C12.d": 0, "clause:C12.e": 0, "requests_finished": 0, "retries_seen": 0, "retries_exhausted": 0, "completed_meanwhile": 0, "failure_reports": 0, "timeouts": 0}
    case = dict(args=[kind, n, list(per), list(pre), list(mid), cancel_order, list(transport) if transport else None, async_place])
    fclass = "transport:%s" % transport[1] if transport else ("missing-report" if isinstance(cancel_order, int) else ("permuted" if cancel_order else ("+".join(sorted({p.split(":")[0] for p in per})) or "SUCCESS")))
    meanwhile = "completed-meanwhile" if (pre or mid) else "none-completed"
    key = lambda pred: (kind, n, fclass, meanwhile, pred)
    try:
        run_path(w, path)
        st = w.strategies[0]
        orders = list(getattr(st, "_created", []))
        if pre or mid:
            counts["completed_meanwhile"] += 1
        counts["requests_finished"] += 1
        calls = [c for c in w.exchange.calls]
        target_method = {"place": "placeOrders", "cancel": "cancelOrders", "update": "updateOrders", "replace": "replaceOrders"}[kind]
        attempts = [a for a in w.api_attempts if a[0] == target_method]
        # c) retries
        counts["clause:C12.c"] += 1
        n_att = len(attempts) - (0 if kind != "place" else 0)
        if kind == "place":
            pass
        if n_att > 4:
            out.append(core.v("C12.c", key("retries"), "%d calls for one package (limit 1 + 3 retries)" % n_att, case))
        if n_att > 1:
            counts["retries_seen"] += 1
        if transport and transport[0] >= 4:
            counts["retries_exhausted"] += 1
        # e) exceptions
        counts["clause:C12.e"] += 1
        if w.handler_exceptions or any(t.error for t in w.pool.tasks):
            msg = (w.handler_exceptions or [t.error for t in w.pool.tasks if t.error])[0]
            out.append(core.v("C12.e", key("exception " + msg.strip().splitlines()[-1].split(":")[0]), "exception escaped: %s" % msg[-400:], case))
        # a) nobody stranded
        allow_pending = kind == "place"
        for i, o in enumerate(orders):
            counts["clause:C12.a"] += 1
            s = L.sname(o.status)
            if s in ("CANCELLING", "UPDATING", "REPLACING"):
                out.append(core.v("C12.a", key("stranded " + s), "order %d left %s after the request finished" % (i, s), case))
            if s == "PENDING":
                f = per[i] if i < len(per) else "SUCCESS"
                exhausted = transport and transport[0] >= 4
                # async: pending until the exchange has accepted the bet and its stream update has been processed
                ok = allow_pending and (f.startswith("TIMEOUT") or (async_place and not (isinstance(async_place, str) and f == "SUCCESS"))) and not exhausted
                if not ok:
                    out.append(core.v("C12.a", key("stranded PENDING"), "order %d left PENDING after the request finished (outcome %s)" % (i, f), case))
            if L.sname(o.trade.status) == "PENDING":
                out.append(core.v("C12.a", key("trade pending"), "trade of order %d left PENDING" % i, case))
        # all local orders incl. replacements
        local = [o for m in w.framework.markets for o in m.blotter]
        for o in local:
            if L.sname(o.trade.status) == "PENDING":
                out.append(core.v("C12.a", key("trade pending"), "a trade is left PENDING", case))
                break
        # b) transaction counts
        counts["clause:C12.b"] += 1
        exp = 0
        for c in calls:
            if not c["answered"]:
                continue
            if c["method"] in ("placeOrders", "replaceOrders"):
                exp += c["n"]
            reps = c["reports"]
            if c["method"] in ("cancelOrders", "updateOrders"):
                k = sum(1 for r in reps if r["status"] == "FAILURE")
                exp += k
                counts["failure_reports"] += k
            elif c["method"] == "replaceOrders":
                k = sum(1 for r in reps if r["cancelInstructionReport"]["status"] == "FAILURE")
                exp += k
                counts["failure_reports"] += k
            counts["timeouts"] += sum(1 for r in reps if r.get("status") == "TIMEOUT")
        got = w.client.transaction_count_total
        if got != exp:
            out.append(core.v("C12.b", key("count " + ("over" if got > exp else "under")), "transaction_count_total %s, exchange saw %s (calls %s)" % (got, exp, [(c["method"], c["n"], c["answered"]) for c in calls]), case))
        # d) reports applied to the right orders: every local order's bet belongs to it
        ex = w.exchange
        for o in local:
            if o.bet_id is None:
                continue
            counts["clause:C12.d"] += 1
            b = ex.bets.get(str(o.bet_id))
            if b is None:
                out.append(core.v("C12.d", key("misapplied phantom"), "local order carries bet id %s unknown to the exchange" % o.bet_id, case))
                continue
            same_trade_refs = {x.customer_order_ref for x in o.trade.orders}
            if b.ref not in same_trade_refs or b.side != o.side or b.sel != o.selection_id or (abs(b.price - o.order_type.price) > 1e-9):
                out.append(core.v("C12.d", key("misapplied"), "local order (%s sel %s @%s, trade refs %d) carries bet %s which is %s sel %s @%s" % (o.side, o.selection_id, o.order_type.price, len(same_trade_refs), b.bet_id, b.side, b.sel, b.price), case))
        for i, o in enumerate(orders):
            for r in o.responses.cancel_responses:
                bid = getattr(getattr(r, "instruction", None), "bet_id", None)
                if bid is not None and o.bet_id is not None and str(bid) != str(o.bet_id):
                    out.append(core.v("C12.d", key("misapplied cancel report"), "order %d (bet %s) holds a cancel report for bet %s" % (i, o.bet_id, bid), case))
        # replace: every SUCCESS replacement at the exchange has its local replacement in the old order's trade
        if kind == "replace":
            for c in calls:
                if c["method"] != "replaceOrders" or not c["answered"]:
                    continue
                for r in c["reports"]:
                    if r["status"] == "SUCCESS":
                        nb = str(r["placeInstructionReport"]["betId"])
                        if not any(str(o.bet_id) == nb for o in local):
                            out.append(core.v("C12.d", key("replacement missing"), "replacement bet %s has no local order" % nb, case))
        sig = tuple((L.sname(o.status), o.bet_id is not None) for o in local) + (got,)
    finally:
        w.stop()
    return dict(violations=_dedup(out), counts=counts, outcome=str(sig) if not out else "v")


def _dedup(vs, per_key=1):
    seen, out = {}, []
    for d in vs:
        k = tuple(d["key"])
        seen[k] = seen.get(k, 0) + 1
        if seen[k] <= per_key:
            out.append(d)
    return out


# ---- simulated execution ---------------------------------------------------------------
def _sim_one(args):
    """one package of n orders in simulation; between the request and its execution some orders complete
    (trade / suspension / removal) or the market state makes the call fail."""
    kind, n, event, place_variant = args
    tmpl = [L.P("PBn"), L.P("PL"), L.P("PB")][:n]
    if kind == "place":
        tmpl = {"ok": [L.P("PBn"), L.P("XBp"), L.P("FOK")], "badversion": [L.P("PBv"), L.P("PBn"), L.P("PBv")], "sp": [L.P("MOC"), L.P("LOC"), L.P("PBn")], "fokbad": [L.P("FOK", mf=99.0), L.P("PBn"), L.P("XB")]}[place_variant][:n]
        hist = [L.tick(100, "Q", [["TX", tmpl, []]]), L.tick(100, event), L.tick(100), L.tick(100)]
    else:
        req = {"cancel": lambda i: ["C", i, None], "update": lambda i: ["U", i, "PERSIST"], "replace": lambda i: ["R", i, 2.3]}[kind]
        # the market event arrives 100 ms after the request, i.e. while it is in flight (latencies 150-280 ms)
        hist = [L.tick(200, "Q", [["TX", tmpl, []]]), L.tick(200), L.tick(100, event, [["TX", [req(i) for i in range(n)], []]]), L.tick(100), L.tick(100), L.tick(100), L.tick(100)]
    ticks, scripts = L.split_history(hist, 1)
    spec = simx.MarketSpec(book0=L.BOOK0)
    L._install_created_tracking()
    submitted = []

    class H:
        def pre_execute(self, w, p):
            t = p.package_type.name
            if t == "PLACE":
                submitted.append(len([o for o in p._orders if L.sname(o.status) != "VIOLATION"]))
            elif t == "REPLACE":
                # an instruction is submitted for every order of the package that is still live
                submitted.append(len([o for o in p._orders if L.sname(o.status) not in ("VIOLATION", "EXECUTION_COMPLETE")]))

    w = simx.SimWorld([(spec, ticks)], [dict(script=scripts[0], kw=dict(max_order_exposure=None, max_selection_exposure=None, max_live_trade_count=5))], cfg=dict(place_latency=0.12), hooks=H(), client_kw={0: dict(transaction_limit=_limit_for(n))})
    w.run()
    out = []
    counts = {"clause:C12.a": 0, "clause:C12.b": 0, "clause:C12.e": 0, "sim_packages": 1, "sim_failures": 0}
    case = dict(sim=[kind, n, event, place_variant])
    key = lambda pred: ("sim-" + kind, n, event, "-", pred)
    counts["clause:C12.e"] += 1
    if w.run_exception is not None:
        out.append(core.v("C12.e", key("exception " + type(w.run_exception).__name__), "simulated run raised %r\n%s" % (w.run_exception, getattr(w, "run_traceback", "")[-400:]), case))
        return dict(violations=out, counts=counts, outcome="exc")
    orders = w.all_orders()
    for o in orders:
        counts["clause:C12.a"] += 1
        s = L.sname(o.status)
        if s in ("CANCELLING", "UPDATING", "REPLACING", "PENDING"):
            out.append(core.v("C12.a", key("stranded " + s), "simulated order left %s after its request executed" % s, case))
        if L.sname(o.trade.status) == "PENDING":
            out.append(core.v("C12.a", key("trade pending"), "trade left PENDING", case))
    # b) transaction count: orders of executed place/replace packages + failure reports
    exp = sum(submitted)
    fails = 0
    for o in orders:
        fails += sum(1 for r in o.responses.cancel_responses if getattr(r, "status", None) == "FAILURE")
        fails += sum(1 for r in o.responses.update_responses if getattr(r, "status", None) == "FAILURE")
    counts["sim_failures"] += fails
    counts["clause:C12.b"] += 1
    got = w.clients[0].transaction_count_total
    if got != exp + fails:
        out.append(core.v("C12.b", key("count " + ("over" if got > exp + fails else "under")), "simulated transaction_count_total %s, expected %s submitted + %s failed" % (got, exp, fails), case))
    return dict(violations=_dedup(out), counts=counts, outcome=str([(L.sname(o.status)) for o in orders] + [got]))


def jobs_for(tier):
    thorough = tier == "thorough"
    jobs = []
    nmax = 3
    for kind in ("place", "cancel", "update", "replace"):
        for n in range(1, nmax + 1):
            outs = OUTCOMES if kind != "place" else OUTCOMES + ("TIMEOUT_APPLIED",)
            for per in itertools.product(outs, repeat=n):
                if n == 3 and not thorough and len(set(per)) == 3 and "FAILURE:INVALID_BET_SIZE" in per:
                    continue
                jobs.append((kind, n, per, (), (), None, None, False))
            # orders completing between request and response: every subset, before the send / between send and reply
            for r in range(1, n + 1):
                for sub in itertools.combinations(range(n), r):
                    for per in (("SUCCESS",) * n, ("FAILURE:ERROR_IN_ORDER",) + ("SUCCESS",) * (n - 1), ("TIMEOUT",) * n):
                        if kind != "place":
                            jobs.append((kind, n, per, sub, (), None, None, False))
                        jobs.append((kind, n, per, (), sub, None, None, False))
                        if kind != "place" and r < n:
                            rest = tuple(i for i in range(n) if i not in sub)
                            jobs.append((kind, n, per, sub, rest[:1], None, None, False))
            # transport / API errors on attempts 1..4
            for nerr in (1, 2, 3, 4):
                for err in ("APIError", "InvalidResponse", "StatusCodeError", "APIErrorBody"):
                    for when in ("before", "after"):
                        jobs.append((kind, n, ("SUCCESS",) * n, (), (), None, (nerr, err, when), False))
                        if thorough or n == 2:
                            jobs.append((kind, n, ("FAILURE:ERROR_IN_ORDER",) + ("SUCCESS",) * (n - 1), (), (0,) if n > 1 else (), None, (nerr, err, when), False))
    # replace: the cancel half and the place half of an instruction report answered independently
    for n in (1, 2):
        for per in itertools.product(("SPLIT:TIMEOUT:FAILURE", "SPLIT:SUCCESS:FAILURE", "SPLIT:SUCCESS:TIMEOUT", "SPLIT:FAILURE:TIMEOUT", "SUCCESS"), repeat=n):
            if any(p.startswith("SPLIT") for p in per):
                jobs.append(("replace", n, per, (), (), None, None, False))
        # async placement
    for n in (1, 2):
        for per in itertools.product(("SUCCESS", "FAILURE:ERROR_IN_ORDER", "TIMEOUT"), repeat=n):
            jobs.append(("place", n, per, (), (), None, None, True))
            jobs.append(("place", n, per, (), (), None, None, "accept"))
            jobs.append(("place", n, per, (), (), None, None, "accept-filled"))
    # cancel reports permuted / each one missing
    for n in (2, 3):
        for per in itertools.product(("SUCCESS", "FAILURE:BET_TAKEN_OR_LAPSED", "TIMEOUT"), repeat=n):
            jobs.append(("cancel", n, per, (), (), "reversed", None, False))
            for miss in range(n):
                jobs.append(("cancel", n, per, (), (), miss, None, False))
    return jobs


def sim_jobs(tier):
    jobs = []
    for kind in ("cancel", "update", "replace"):
        for n in (1, 2, 3):
            for ev in ("Q", "T21", "T22", "T2x", "SUS", "RM1", "IP", "SUSRM1", "CL"):
                jobs.append((kind, n, ev, None))
    for variant in ("ok", "badversion", "sp", "fokbad"):
        for n in (1, 2, 3):
            for ev in ("Q", "SUS", "RM1", "IP", "CL", "T21"):
                jobs.append(("place", n, ev, variant))
    return jobs


# ---- E4: two execution workers answering for two orders of ONE trade at the same time -------------------
def _thr_trade(args):
    """two PLACE packages (one order each, same trade) are answered concurrently by two execution-pool workers:
    every schedule with <= bound preemptions inside Trade.__enter__/__exit__/_update_status must leave the trade
    LIVE (not in its transient PENDING state) and both orders EXECUTABLE."""
    (bound,) = args
    from mc import thrx
    from betfairlightweight import resources
    from flumine.clients import BetfairClient
    from flumine.order.trade import Trade
    from flumine.order.ordertype import LimitOrder
    from flumine.order.orderpackage import BetfairOrderPackage, OrderPackageType
    from flumine import BaseStrategy

    viol = []
    outcomes = set()
    LiveFlumine, _ = livex.live_classes()
    upd = Trade._update_status
    codes = [Trade.__enter__.__code__, Trade.__exit__.__code__, upd.__code__]
    if hasattr(upd, "__wrapped__"):
        codes.append(upd.__wrapped__.__code__)

    def make():
        class _BC:
            lightweight = False
            username = "thr"

        client = BetfairClient(_BC())
        fw = LiveFlumine(client)
        st = BaseStrategy(market_filter={}, name="thr", max_order_exposure=None, max_selection_exposure=None)
        fw.strategies(st, fw.clients, fw)
        trade = Trade("1.100000001", 1, 0, st)
        ex = fw.betfair_execution
        pkgs = []
        for i in range(2):
            o = trade.create_order("BACK", LimitOrder(2.2 + 0.2 * i, 2.0))
            o.update_client(client)
            o.place(0, None, False)
            pkgs.append(BetfairOrderPackage(client=client, market_id="1.100000001", orders=[o], package_type=OrderPackageType.PLACE, bet_delay=0, market_version=None))

        def helper(fn, package, session):
            o = list(package)[0]
            return resources.PlaceOrders(
                elapsed_time=0.01,
                marketId=package.market_id,
                status="SUCCESS",
                instructionReports=[{"status": "SUCCESS", "orderStatus": "EXECUTABLE", "betId": str(1000 + trade.orders.index(o)), "placedDate": "2023-11-14T22:13:20.000Z", "averagePriceMatched": 0.0, "sizeMatched": 0.0, "instruction": o.create_place_instruction()}],
            )

        ex._execution_helper = helper
        bodies = [(lambda p=p: ex.execute_place(p, None)) for p in pkgs]
        return bodies, codes, dict(trade=trade)

    def check(ctx, s):
        t = ctx["trade"]
        got = (L.sname(t.status), tuple(L.sname(o.status) for o in t.orders))
        outcomes.add(got)
        case = dict(thr_trade=[bound], choices=[p[2] for p in s.points])
        if s.errors:
            viol.append(core.v("C12.a", ("place", 2, "threads", "none-completed", "exception"), "worker raised: %s" % s.errors[0][-300:], case))
        elif got != ("LIVE", ("EXECUTABLE", "EXECUTABLE")):
            viol.append(core.v("C12.a", ("place", 2, "threads", "none-completed", "trade-" + got[0]), "two placements of one trade answered concurrently: trade %s, orders %s" % got, case, size=sum(1 for p in s.points if p[2])))

    with core.owned_config(simulated=False):
        st = thrx.explore(make, check, bound, cap=60000)
    best = {}
    for d in viol:
        k = tuple(d["key"])
        if k not in best or d.get("size", 0) < best[k].get("size", 0):
            best[k] = d
    return dict(violations=list(best.values()), stats=st, outcomes=len(outcomes))


def run(tier):
    rep = core.Report("C12", tier, "E2 livex + E1 simx + E4 thrx")
    jobs = jobs_for(tier)
    for r in core.pmap(_one, jobs):
        rep.add_violations(r["violations"])
        rep.merge_counts(r["counts"])
        rep.outcomes.add(r["outcome"])
    sj = sim_jobs(tier)
    for r in core.pmap(_sim_one, sj):
        rep.add_violations(r["violations"])
        rep.merge_counts(r["counts"])
        rep.outcomes.add(r["outcome"])
    r = core.pmap(_thr_trade, [(2,)], chunk=1)[0]  # bound 3 exceeds the 60000-schedule cap (measured): 2 is complete
    rep.add_violations(r["violations"])
    rep.count("thread_schedules", r["stats"]["schedules"], mandatory=True)
    rep.count("clause:C12.a", r["stats"]["schedules"])
    if r["stats"]["capped"]:
        rep.caps_hit.append("thrx schedule cap")
    rep.need("requests_finished", "retries_seen", "retries_exhausted", "completed_meanwhile", "failure_reports", "timeouts", "sim_packages", "sim_failures")
    rep.states = len(jobs) + len(sj)
    rep.transitions = rep.states
    rep.traces = rep.states
    rep.evaluations = sum(rep.clauses.values())
    rep.nontrivial = len(rep.outcomes)
    rep.sample(dict(zip(("kind", "n", "per_instruction", "completed_before_send", "completed_before_reply", "cancel_reports", "transport", "async"), jobs[len(jobs) // 3])))
    rep.sample(dict(zip(("kind", "n", "per_instruction", "completed_before_send", "completed_before_reply", "cancel_reports", "transport", "async"), jobs[-1])))
    rep.sample({"sim": sj[len(sj) // 2]})
    rep.bounds = dict(kinds=["place", "cancel", "update", "replace"], n=[1, 2, 3], outcomes=list(OUTCOMES), transport_errors=["APIError", "InvalidResponse", "StatusCodeError", "APIErrorBody"], attempts=[1, 2, 3, 4], live_runs=len(jobs), sim_runs=len(sj))
    rep.rule = "fault enumeration: every assignment of {SUCCESS, FAILURE x 3 codes, TIMEOUT(+applied)} to the instructions of packages of 1-3 orders of each kind; every subset of the package's orders completed by the exchange (snapshot delivered) after the request and before it is sent / between send and reply; cancel reports reversed and each one missing; transport or API errors (4 classes, request applied or not) on attempts 1-4; async placement; simulated execution with the market event that arrives while the request is in flight"
    rep.assumptions = [
        "exchange double: documented report shapes; a re-submitted placeOrders with the same customerRef is de-duplicated by the exchange",
        "PENDING after the request finished is accepted only for placements answered TIMEOUT or accepted asynchronously",
        "Betdaq execution is outside, as stated",
    ]
    return rep.finish()


def replay(rep):
    c = rep["case"]
    if "thr_trade" in c:
        r = _thr_trade(tuple(c["thr_trade"]))
    elif "sim" in c:
        r = _sim_one(tuple(c["sim"]))
    else:
        a = c["args"]
        r = _one((a[0], a[1], tuple(a[2]), tuple(a[3]), tuple(a[4]), a[5], tuple(a[6]) if a[6] else None, a[7]))
    for d in r["violations"]:
        print(d["key"], d["detail"])
    return 1 if r["violations"] else 0
