"""C17 Price helpers and order validation agree with the exchange's ladders — E3 gridx (complete
enumeration of the finite grids against refs.py) + a slice through the real market.place_order."""
import itertools
import math
from decimal import Decimal

from mc import core, refs, simx

CLAUSES = {
    "C17.a": "get_nearest_price returns the closest ladder tick (either at exact mid-points), clamped, idempotent; ladders equal the exchange's",
    "C17.b": "price_ticks_away lands exactly n ticks away, clamped at both ends",
    "C17.c": "OrderValidation accepts exactly the orders on the ladder with positive 2dp size/liability meeting the currency minimums",
}


# ---------------------------------------------------------------------------- (a)
_BD = {}


def _betdaq_nearest(utils, x):
    """acceptable answers on the Betdaq ladder (rebuilt exactly from BETDAQ_CUTOFFS, which are trusted)."""
    import bisect

    if "t" not in _BD:
        _BD["t"] = refs.betdaq_ticks(utils.BETDAQ_CUTOFFS)
    t = _BD["t"]
    d = refs.dec(x)
    if d <= t[0]:
        return {t[0]}
    if d >= t[-1]:
        return {t[-1]}
    i = bisect.bisect_left(t, d)
    lo, hi = t[i - 1], t[i]
    if abs((d - lo) - (hi - d)) <= Decimal("1e-9"):
        return {lo, hi}
    return {lo} if d - lo < hi - d else {hi}


def _check_betdaq(utils, x, out):
    try:
        r = utils.get_nearest_price(x, utils.BETDAQ_CUTOFFS)
    except Exception as e:
        out.append(core.v("C17.a", ("get_nearest_price", "BETDAQ", "exc", type(e).__name__), "x=%r raised %r" % (x, e), {"x": x, "ladder": "BETDAQ"}))
        return
    ok = _betdaq_nearest(utils, x)
    if refs.dec(r) not in ok:
        out.append(core.v("C17.a", ("get_nearest_price", "BETDAQ", "-", "not-nearest"), "x=%r on the Betdaq ladder -> %r, nearest %s" % (x, r, sorted(map(float, ok))), {"x": x, "ladder": "BETDAQ", "got": r}))


def _nearest_chunk(args):
    lo, hi, denom = args[:3]
    betdaq_first = len(args) > 3 and args[3]
    from flumine import utils

    out, n, bands = [], 0, set()
    for k in range(lo, hi):
        x = k / denom
        n += 1
        # the same number is rounded on both ladders, in either order (results must not depend on
        # what was asked before)
        if betdaq_first:
            _check_betdaq(utils, x, out)
        _check_nearest(utils, x, out, bands)
        if not betdaq_first:
            _check_betdaq(utils, x, out)
        n += 1
    return dict(violations=out[:20], n=n, bands=sorted(bands))


def _check_nearest(utils, x, out, bands):
    try:
        r = utils.get_nearest_price(x)
    except Exception as e:
        out.append(core.v("C17.a", ("get_nearest_price", "CLASSIC", "exc", type(e).__name__), "x=%r raised %r" % (x, e), {"x": x}))
        return
    h = refs.to_hundredths(r)
    ok = refs.nearest_classic(x)
    bi = refs.band_index(min(ok))
    bands.add(bi)
    if h is None or h not in refs.CLASSIC_SET:
        out.append(core.v("C17.a", ("get_nearest_price", "CLASSIC", bi, "not-a-tick"), "x=%r -> %r is not a tick" % (x, r), {"x": x, "got": r}))
        return
    if h not in ok:
        out.append(
            core.v(
                "C17.a",
                ("get_nearest_price", "CLASSIC", bi, "not-nearest"),
                "x=%r -> %r, nearest %s" % (x, r, sorted(ok)),
                {"x": x, "got": r, "expected_hundredths": sorted(ok)},
            )
        )
        return
    r2 = utils.get_nearest_price(r)
    if r2 != r:
        out.append(core.v("C17.a", ("get_nearest_price", "CLASSIC", bi, "idempotent"), "f(%r)=%r but f(f(x))=%r" % (x, r, r2), {"x": x}))


def _boundary_points():
    pts = set()
    t = refs.CLASSIC
    for i, h in enumerate(t):
        x = h / 100
        pts.update([x, math.nextafter(x, 0), math.nextafter(x, 2000)])
        if i + 1 < len(t):
            mid = (h + t[i + 1]) / 200
            pts.update([mid, math.nextafter(mid, 0), math.nextafter(mid, 2000), mid - 1e-9, mid + 1e-9])
    pts.update([0, 0.0, 1, 1.0, 1.005, 1.0099999, 1000.0001, 1000.5, 1001, 1100, 5000, 1e9, -1, -0.5])
    return sorted(pts)


def _boundary_chunk(points):
    from flumine import utils

    out, bands = [], set()
    for x in points:
        _check_nearest(utils, x, out, bands)
    return dict(violations=out[:20], n=len(points), bands=sorted(bands))


# ---------------------------------------------------------------------------- (b)
def _ticks_chunk(args):
    lo, hi, nmax = args
    from flumine import utils

    out, n = [], 0
    for i in range(lo, hi):
        h = refs.CLASSIC[i]
        p = h / 100
        for d in range(-nmax, nmax + 1):
            n += 1
            try:
                r = utils.price_ticks_away(p, d)
            except Exception as e:
                out.append(core.v("C17.b", ("price_ticks_away", "CLASSIC", refs.band_index(h), "exc"), "(%r,%d) raised %r" % (p, d, e), {"price": p, "n": d}))
                continue
            exp = refs.ticks_away(h, d)
            if refs.to_hundredths(r) != exp:
                pred = "clamp" if not (0 <= i + d < 350) else "distance"
                out.append(
                    core.v(
                        "C17.b",
                        ("price_ticks_away", "CLASSIC", refs.band_index(h), pred),
                        "(%r,%d) -> %r expected %s" % (p, d, r, exp / 100),
                        {"price": p, "n": d, "got": r, "expected": exp / 100},
                    )
                )
    # the same on the Betdaq ladder (prices= argument), a slice of it per chunk
    bd = [float(x) for x in refs.betdaq_ticks(utils.BETDAQ_CUTOFFS)]
    for i in range(lo * len(bd) // 350, hi * len(bd) // 350):
        for d in (-len(bd) - 3, -400, -7, -1, 0, 1, 2, 9, 50, 400, len(bd) + 3):
            n += 1
            try:
                r = utils.price_ticks_away(bd[i], d, prices=utils.BETDAQ_PRICES_FLOAT)
            except Exception as e:
                out.append(core.v("C17.b", ("price_ticks_away", "BETDAQ", "-", "exc"), "(%r,%d) raised %r" % (bd[i], d, e), {"price": bd[i], "n": d, "ladder": "BETDAQ"}))
                continue
            exp = bd[min(max(i + d, 0), len(bd) - 1)]
            if r != exp:
                out.append(core.v("C17.b", ("price_ticks_away", "BETDAQ", "-", "distance"), "betdaq (%r,%d) -> %r expected %r" % (bd[i], d, r, exp), {"price": bd[i], "n": d, "ladder": "BETDAQ"}))
    return dict(violations=out[:20], n=n)


def _ladders():
    from flumine import utils

    out, n = [], 0
    for name, got, exp in (
        ("PRICES", [refs.to_hundredths(x) for x in utils.PRICES], refs.CLASSIC),
        ("PRICES_FLOAT", [refs.to_hundredths(x) for x in utils.PRICES_FLOAT], refs.CLASSIC),
        ("FINEST_PRICES", [refs.to_hundredths(x) for x in utils.FINEST_PRICES], refs.FINEST),
    ):
        n += len(exp)
        if got != exp:
            diff = sorted(set(got) ^ set(exp), key=lambda z: (z is None, z))[:5]
            out.append(core.v("C17.a", ("ladder", name, "-", "mismatch"), "%s differs from the exchange ladder near %s" % (name, diff), {"ladder": name, "diff": diff}))
    exp = refs.betdaq_ticks(utils.BETDAQ_CUTOFFS)
    got = [Decimal(str(x)) for x in utils.BETDAQ_PRICES]
    n += len(exp)
    if got != exp:
        out.append(core.v("C17.a", ("ladder", "BETDAQ_PRICES", "-", "mismatch"), "BETDAQ_PRICES != ladder rebuilt from BETDAQ_CUTOFFS", {"ladder": "BETDAQ"}))
    # line ranges: half- and whole-unit intervals
    for interval in (0.5, 1, 1.0, 2, 5, 10, 0.25):
        for mn in (0, 0.5, 1, 1.5, 10, 100.5, -2.5):
            for span in (0, 1, 3, 10, 50, 250):
                mx = mn + span * interval
                for mx_ in (mx, mx + interval / 2):
                    n += 1
                    got = [refs.dec(x) for x in utils.make_line_prices(mn, mx_, interval)]
                    exp = refs.line_ticks(mn, mx_, interval)
                    if got != exp:
                        out.append(
                            core.v("C17.a", ("make_line_prices", "LINE_RANGE", "-", "mismatch"), "(%r,%r,%r) -> %d prices, expected %d" % (mn, mx_, interval, len(got), len(exp)), {"min": mn, "max": mx_, "interval": interval})
                        )
    return dict(violations=out, n=n)


# ---------------------------------------------------------------------------- (c)
_W = {}


def _val_world():
    """One long-lived real framework/strategy/clients per worker process (orders are fresh each time)."""
    if _W:
        return _W
    import betfairlightweight
    from flumine import FlumineSimulation, clients, BaseStrategy
    from flumine.controls.tradingcontrols import OrderValidation
    from betfairlightweight.resources.accountresources import AccountDetails

    cl = clients.SimulatedClient(username="val")
    fw = FlumineSimulation(client=cl)
    st = BaseStrategy(market_filter={"markets": []}, name="val")
    bf = clients.BetfairClient(betfairlightweight.APIClient("verif", "x", app_key="k", certs="/nonexistent"))
    bd = clients.BetdaqClient(None, username="valbd")
    _W.update(fw=fw, cl=cl, bf=bf, bd=bd, st=st, ctl=OrderValidation(fw), AccountDetails=AccountDetails)
    return _W


def _mk_order(W, ot, side, price, size, liab, ladder, line):
    from flumine.order.trade import Trade
    from flumine.order.ordertype import LimitOrder, LimitOnCloseOrder, MarketOnCloseOrder

    tr = Trade("1.1", 1, 0, W["st"])
    if ladder == "BETDAQ":
        from flumine.order.ordertype import BetdaqLimitOrder

        o = tr.create_betdaq_order(side, BetdaqLimitOrder(price, size, betdaq_runner_id=701, runner_reset_count=0, withdrawal_sequence_number=0))
        o.update_client(W["cur_client"])
        return o
    if ot == "L":
        kw = {}
        if ladder == "LINE_RANGE":
            from betfairlightweight.resources.bettingresources import LineRangeInfo

            kw["line_range_info"] = LineRangeInfo(marketUnit="u", interval=line[2], minUnitValue=line[0], maxUnitValue=line[1])
        o_t = LimitOrder(price, size, price_ladder_definition=ladder, **kw)
    elif ot == "LOC":
        o_t = LimitOnCloseOrder(liab, price, price_ladder_definition=ladder)
    else:
        o_t = MarketOnCloseOrder(liab)
    o = tr.create_order(side, o_t)
    o.update_client(W["cur_client"])
    return o


def _ladder_set(ladder, line):
    key = (ladder, line)
    if key not in _LS:
        if ladder == "CLASSIC":
            _LS[key] = {Decimal(h) / 100 for h in refs.CLASSIC}
        elif ladder == "FINEST":
            _LS[key] = {Decimal(h) / 100 for h in refs.FINEST}
        elif ladder == "BETDAQ":
            import flumine.utils as fu

            _LS[key] = set(refs.betdaq_ticks(fu.BETDAQ_CUTOFFS))
        else:
            _LS[key] = set(refs.line_ticks(*line))
    return _LS[key]


_LS = {}


def _val_chunk(cases):
    """cases: list of (currency, mbv, ot, side, price, size, liab, ladder, line)"""
    from flumine.order.orderpackage import OrderPackageType
    from flumine.exceptions import ControlError
    from flumine.order.order import OrderStatus
    from betfairlightweight.metadata import currency_parameters

    W = _val_world()
    out, n, acc = [], 0, 0
    sig = set()
    history = []  # LINE_RANGE cases seen so far in this chunk (the control is long-lived: order can matter)
    for (cur, mbv, ot, side, price, size, liab, ladder, line) in cases:
        n += 1
        cur_k = cur
        if ladder == "LINE_RANGE":
            history.append([cur_k, mbv, ot, side, price, size, liab, ladder, list(line)])
        # currency "XXX:betfair" = live Betfair client; "NONE:betfair" = no account details yet,
        # "ZZZ:betfair" = currency missing from the table (both documented to fall back to GBP)
        kind = "sim"
        if ":" in cur:
            cur, kind = cur.split(":")
        client = W["bf"] if kind == "betfair" else (W["bd"] if kind == "betdaq" else W["cl"])
        W["cur_client"] = client
        if cur == "NONE":
            client.account_details = None
            cur = "GBP"
        else:
            client.account_details = W["AccountDetails"](currencyCode=cur, discountRate=0)
            if cur not in currency_parameters:
                cur = "GBP"
        client.min_bet_validation = mbv
        o = _mk_order(W, ot, side, price, size, liab, ladder, line)
        try:
            W["ctl"](o, OrderPackageType.PLACE)
            got = True
        except ControlError:
            got = False
        except Exception as e:
            # an unexpected exception also keeps the order away from the exchange, but it is not
            # "refused" in the documented way
            got = "exc:%s" % type(e).__name__
        exp = refs.validate_order_ref(ot, side, price, size, liab, _ladder_set(ladder, line), currency_parameters[cur], mbv and ladder != "BETDAQ")
        acc += 1 if got is True else 0
        sig.add((ot, ladder, got is True, exp))
        if got is not exp:
            if isinstance(got, str) and exp is False:
                # refused by exception (e.g. price None then compared): statement only needs "refused"
                if o.status != OrderStatus.VIOLATION and price is not None and size is not None:
                    pass
                continue
            pred = "accepted-invalid" if got is True else ("refused-valid" if got is False else got)
            out.append(
                core.v(
                    "C17.c",
                    ("OrderValidation", ladder, ot, pred),
                    "%s %s %s price=%r size=%r liab=%r cur=%s mbv=%s: got %r expected %r" % (ot, side, ladder, price, size, liab, cur, mbv, got, exp),
                    dict(currency=cur_k, min_bet_validation=mbv, ot=ot, side=side, price=price, size=size, liab=liab, ladder=ladder, line=line, prefix=list(history[:-1]) if ladder == "LINE_RANGE" else []),
                )
            )
        elif got is False and o.status != OrderStatus.VIOLATION:
            out.append(core.v("C17.c", ("OrderValidation", ladder, ot, "refused-not-marked"), "refused order not marked VIOLATION", dict(price=price, size=size)))
    return dict(violations=out[:20], n=n, accepted=acc, sig=sorted(map(str, sig)))


def _val_cases(tier):
    from betfairlightweight.metadata import currency_parameters

    fine = True  # the fine grids cost seconds: both tiers use them
    cases = []
    curs = sorted(currency_parameters)
    # (i) price grid x a few sizes, CLASSIC and FINEST, both sides, LIMIT and LOC
    step = 1 if fine else 5
    prices = [round(k / 1000, 3) for k in range(1000, 4001, step)]
    for lo, hi, st in refs._BANDS:  # around every cutoff
        for h in (lo, hi):
            for d in (-2, -1, 0, 1, 2):
                prices.append(round((h + d * st) / 100, 2))
                prices.append(round((h + d * st) / 100 + 0.001, 3))
                prices.append(round(h / 100 + d * 0.01, 2))
    prices += [0, 1, 1.0, 1.005, 1.01, 1000, 1000.0, 1001, 1010, None, 2, 3, 999, 990, 995]
    # the floating-point neighbours of ticks (what ordinary float arithmetic produces, e.g. 1.1*3): not ticks
    for h in refs.CLASSIC[::7]:
        prices += [math.nextafter(h / 100, 0), math.nextafter(h / 100, 2000)]
    prices += [1.1 * 3, 0.7 + 0.6, 0.1 + 0.2 + 1.0]
    for p in prices:
        for ladder in ("CLASSIC", "FINEST"):
            cases.append(("GBP", True, "L", "BACK", p, 2.0, None, ladder, None))
            cases.append(("GBP", True, "L", "LAY", p, 2.0, None, ladder, None))
            cases.append(("GBP", True, "LOC", "LAY", p, None, 10.0, ladder, None))
            cases.append(("EUR", False, "LOC", "BACK", p, None, 2.0, ladder, None))
    # line ladders
    # incl. ladders that share min/max but differ in the interval, visited in both orders (one control instance)
    for line in ((0.5, 10.5, 1), (0.5, 10.5, 0.5), (0.5, 10.5, 1), (0, 20, 0.5), (0, 20, 1), (0, 20, 0.5), (100.5, 300.5, 1.0), (1, 9, 2), (1, 9, 1)):
        mn, mx, iv = line
        k = 0
        while mn + k * iv / 4 <= mx + iv:
            p = mn - iv + k * iv / 4
            cases.append(("GBP", True, "L", "BACK", p, 2.0, None, "LINE_RANGE", line))
            cases.append(("GBP", False, "L", "LAY", p, 0.5, None, "LINE_RANGE", line))
            k += 1
    # Betdaq: every tick of its ladder, the 0.005 grid between them, float neighbours, both sides; sizes around zero / 2dp
    import flumine.utils as fu

    bdt = [float(x) for x in refs.betdaq_ticks(fu.BETDAQ_CUTOFFS)]
    bdp = set(bdt) | {int(x) for x in bdt if float(x).is_integer()}
    bdp |= {round(k / 200, 3) for k in range(190, 2400)} | {round(k / 20, 2) for k in range(200, 2100)} | {round(k / 2, 1) for k in range(180, 2100)}
    bdp |= {0, 1, 1.0, 1.005, 1000.5, 1001, 1010, 999.5, 999, 995}
    for t in bdt[::5] + bdt[-3:]:
        bdp |= {math.nextafter(t, 0), math.nextafter(t, 2000)}
    for p in sorted(bdp) + [None]:
        for side in ("BACK", "LAY"):
            cases.append(("GBP:betdaq", True, "L", side, p, 2.0, None, "BETDAQ", None))
    for sz in (None, 0, -1, 0.01, 0.001, 0.005, 1.999, 2.001, 0.1 + 0.2, 10, 1e-9):
        for p in (1.01, 2.0, 1000, 2.005):
            for mbv in (True, False):
                cases.append(("GBP:betdaq", mbv, "L", "BACK", p, sz, None, "BETDAQ", None))
    # (ii) size / liability grid x a few prices
    sstep = 1 if fine else 7
    sizes = [round(k / 1000, 3) for k in range(0, 3001, sstep)] + [None, -1, -0.01, 1e-9, 10, 9.99, 10.01, 0.1 + 0.2]
    for s in sizes:
        for p in (1.01, 2.0, 5.0, 20, 1000):
            for mbv in (True, False):
                cases.append(("GBP", mbv, "L", "BACK", p, s, None, "CLASSIC", None))
        for side in ("BACK", "LAY"):
            for mbv in (True, False):
                cases.append(("GBP", mbv, "MOC", side, None, None, s, "CLASSIC", None))
                cases.append(("GBP", mbv, "LOC", side, 2.0, None, s, "CLASSIC", None))
    # (iii) every currency's thresholds, for the simulated and the live Betfair client
    for cur_k in curs + [c + ":betfair" for c in curs] + ["NONE:betfair", "ZZZ:betfair"]:
        cur = cur_k
        base = cur_k.split(":")[0]
        cp = currency_parameters[base if base in currency_parameters else "GBP"]
        mbs, mbp, mbl = cp["min_bet_size"], cp["min_bet_payout"], cp["min_bsp_liability"]
        szs = sorted({round(mbs + d, 2) for d in (-1, -0.5, -0.01, 0, 0.01, 0.5)} | {0.01, round(mbs / 2, 2), mbs * 2, 1, 2})
        for s in szs:
            if s <= 0:
                continue
            # prices whose payout straddles min_bet_payout
            cand = set([1.01, 2.0, 1000])
            target = mbp / s
            for h in refs.CLASSIC:
                if abs(h / 100 - target) <= max(0.5, target * 0.06):
                    cand.add(h / 100)
            for p in sorted(cand):
                for mbv in (True, False):
                    for side in ("BACK", "LAY"):
                        cases.append((cur, mbv, "L", side, p, s, None, "CLASSIC", None))
        # the payout threshold searched jointly over price and stake: for every tick the two-decimal stakes just
        # under / at the stake whose payout reaches the minimum (stakes under the minimum stake only)
        if ":" not in cur_k:
            for h in refs.CLASSIC:
                p = h / 100
                s0 = math.floor(mbp / p * 100) / 100
                for s in {round(s0 - 0.01, 2), round(s0, 2), round(s0 + 0.01, 2)}:
                    if 0 < s < mbs:
                        cases.append((cur, True, "L", "BACK", p, s, None, "CLASSIC", None))
        for l in sorted({round(x + d, 2) for x in (mbs, mbl) for d in (-0.01, 0, 0.01)} | {0.01}):
            for side in ("BACK", "LAY"):
                for mbv in (True, False):
                    cases.append((cur, mbv, "MOC", side, None, None, l, "CLASSIC", None))
                    cases.append((cur, mbv, "LOC", side, 3.0, None, l, "CLASSIC", None))
    return cases


# ---- slice through the real API --------------------------------------------------------
def _api_slice(log_level=None):
    """A set of boundary orders placed through market.place_order in a real simulated run:
    accepted <=> reaches the execution layer and the blotter; refused <=> VIOLATION, never sent.
    log_level: the run is repeated with the flumine loggers raised to that level (a refusal must not depend on
    whether its warning is logged)."""
    import logging
    from betfairlightweight.metadata import currency_parameters

    if log_level is not None:
        lg = logging.getLogger("flumine")
        saved = (lg.level, logging.root.manager.disable)
        lg.setLevel(log_level)
        logging.disable(log_level - 1)
        try:
            r = _api_slice(None)
        finally:
            lg.setLevel(saved[0])
            logging.disable(saved[1])
        for d in r["violations"]:
            d["key"] = list(d["key"][:3]) + [d["key"][3] + "@loglevel"]
            d["case"]["log_level"] = log_level
        return r

    cur = currency_parameters["GBP"]
    tm = []
    for p in (1.0, 1.01, 1.015, 2.0, 2.01, 2.02, 3.0, 3.02, 3.05, 4.05, 4.1, 100, 105, 110, 1000, 1001, 5.55):
        for s in (2.0, 0.5, 0.001, 0, 2.005):
            tm.append(dict(side="BACK", price=p, size=s))
    for l in (0.5, 1, 9.99, 10, 10.001):
        tm.append(dict(side="BACK", ot="MOC", liab=l))
        tm.append(dict(side="LAY", ot="MOC", liab=l))
        tm.append(dict(side="LAY", ot="LOC", liab=l, price=3.05))
        tm.append(dict(side="LAY", ot="LOC", liab=l, price=3.02))
    acts = [["P", dict(t, sel=1)] for t in tm]
    # second update: every order that was refused is offered again unchanged (a strategy retry): refused again
    again = [["PA", i, 0] for i in range(len(tm))]
    spec = simx.MarketSpec(book0={1: {"atb": [[1.5, 10]], "atl": [[1000, 10]]}})
    w = simx.SimWorld(
        [(spec, [[1000, ["Q"]], [1000, ["Q"]]])],
        [dict(script={(0, 0): acts, (0, 1): again}, kw=dict(max_order_exposure=None, max_selection_exposure=None, max_live_trade_count=10**6))],
    ).run()
    st = w.strategies[0]
    sent = set()
    for pk in w.packages:
        for o in pk._orders:
            sent.add(id(o))
    out, n = [], 0
    cs = {Decimal(h) / 100 for h in refs.CLASSIC}
    from flumine.order.order import OrderStatus

    retried = {}
    for (mi, tick, act, res) in st.log:
        if act[0] == "PA":
            retried[act[1]] = res
    first = [e for e in st.log if e[2][0] == "P"]
    for k_, ((mi, tick, act, res), o) in enumerate(zip(first, st.known)):
        t = act[1]
        n += 1
        if k_ in retried and retried[k_] is True:
            exp0 = refs.validate_order_ref(t.get("ot", "L"), t["side"], t.get("price"), t.get("size"), t.get("liab"), cs, cur, True)
            if not exp0:
                out.append(core.v("C17.c", ("market.place_order", "CLASSIC", t.get("ot", "L"), "accepted-invalid-on-retry"), "invalid order %r refused at first, let through when offered again" % (t,), dict(tmpl=t)))
                continue
        exp = refs.validate_order_ref(t.get("ot", "L"), t["side"], t.get("price"), t.get("size"), t.get("liab"), cs, cur, True)
        in_blotter = any(o is b for b in w.all_orders())
        got = (res is True, id(o) in sent, in_blotter)
        if exp and got != (True, True, True):
            out.append(core.v("C17.c", ("market.place_order", "CLASSIC", t.get("ot", "L"), "refused-valid"), "valid order %r not sent: %r" % (t, got), dict(tmpl=t)))
        if not exp and (got != (False, False, False) or o.status != OrderStatus.VIOLATION):
            out.append(core.v("C17.c", ("market.place_order", "CLASSIC", t.get("ot", "L"), "accepted-invalid"), "invalid order %r: returned/sent/blotter=%r status=%s" % (t, got, o.status), dict(tmpl=t)))
    return dict(violations=out, n=n)


def run(tier):
    rep = core.Report("C17", tier, "E3 gridx")
    denom = 10000 if tier == "thorough" else 1000
    total = 1100 * denom + 1
    step = 20000 * (denom // 1000)
    jobs = [(lo, min(lo + step, total), denom, (lo // step) % 2 == 1) for lo in range(0, total, step)]
    n_eval = 0
    bands = set()
    for r in core.pmap(_nearest_chunk, jobs, chunk=1):
        rep.add_violations(r["violations"])
        n_eval += r["n"]
        bands.update(r["bands"])
    rep.clause_evals("C17.a", n_eval)
    bp = _boundary_points()
    for r in core.pmap(_boundary_chunk, [bp[i : i + 200] for i in range(0, len(bp), 200)], chunk=1):
        rep.add_violations(r["violations"])
        rep.clause_evals("C17.a", r["n"])
        n_eval += r["n"]
        bands.update(r["bands"])
    rep.count("increment_bands_hit_by_nearest", len(bands), mandatory=True)
    r = _ladders()
    rep.add_violations(r["violations"])
    rep.clause_evals("C17.a", r["n"])
    n_eval += r["n"]
    nb = 0
    for r in core.pmap(_ticks_chunk, [(i, min(i + 25, 350), 400) for i in range(0, 350, 25)], chunk=1):
        rep.add_violations(r["violations"])
        nb += r["n"]
    rep.clause_evals("C17.b", nb)
    cases = _val_cases(tier)
    acc = 0
    sigs = set()
    nc = 0
    for r in core.pmap(_val_chunk, [cases[i : i + 2000] for i in range(0, len(cases), 2000)], chunk=1):
        rep.add_violations(r["violations"])
        nc += r["n"]
        acc += r["accepted"]
        sigs.update(r["sig"])
    for lvl in (None, 40, 50):  # as configured / ERROR / CRITICAL
        r = _api_slice(lvl)
        rep.add_violations(r["violations"])
        nc += r["n"]
        api_n = r["n"]
    r = _api_batches()
    rep.add_violations(r["violations"])
    nc += r["n"]
    rep.count("batched_transaction_orders", r["n"], mandatory=True)
    ph = [seq for k in (1, 2, 3) for seq in itertools.product(POLLS, repeat=k)]
    for r in core.pmap(_poll_histories, [ph[i::8] for i in range(8)], chunk=1):
        rep.add_violations(r["violations"])
        nc += r["n"]
        rep.count("account_poll_states", r["n"], mandatory=True)
    rep.clause_evals("C17.c", nc)
    rep.count("validation_accepted", acc, mandatory=True)
    rep.count("validation_refused", nc - acc, mandatory=True)
    rep.count("api_slice_orders", api_n, mandatory=True)
    rep.outcomes = sigs
    rep.evaluations = n_eval + nb + nc
    rep.states = n_eval + nb + len(set(map(str, cases)))
    rep.transitions = rep.evaluations
    rep.traces = rep.evaluations
    rep.nontrivial = len(bp) + 350 * 801 + len(set(map(str, cases)))
    rep.rule = (
        "complete enumeration: get_nearest_price on k/%d for k in [0,%d] plus every tick, tick mid-point and their "
        "float neighbours; price_ticks_away on 350 ticks x n in [-400,400]; ladders element-wise; OrderValidation on "
        "price/size/liability grids x currencies x min_bet_validation x side x order type x ladder. distinct_nontrivial "
        "counts boundary points + (tick,n) pairs + distinct validation cases" % (denom, 1100 * denom)
    )
    rep.bounds = dict(nearest_grid_denominator=denom, nearest_range=[0, 1100], ticks_away_n=[-400, 400], validation_cases=len(cases))
    rep.sample({"nearest_boundary_points": bp[100:104]})
    rep.sample({"validation_case": cases[len(cases) // 2]})
    rep.sample({"validation_case": cases[-1]})
    rep.assumptions = [
        "Betfair increment table and currency minimums restated in mc/refs.py (currency table read from betfairlightweight.metadata)",
        "Betdaq cutoffs are trusted; only the ladder construction/validation against them is checked",
        "a price is the number its shortest float repr denotes (Decimal(str(x))); mid-points within 1e-7 hundredths accept either neighbour",
    ]
    return rep.finish()


def _api_batches():
    """The same through batched transactions (`with market.transaction() as t`): every order of a batch is validated,
    whatever its position and whatever happened to the orders before it in the same transaction."""
    from betfairlightweight.metadata import currency_parameters
    from flumine.order.order import OrderStatus

    cur = currency_parameters["GBP"]
    V = dict(side="BACK", price=2.0, size=2.0)
    V2 = dict(side="LAY", ot="MOC", liab=10)
    bad = [
        dict(side="BACK", price=2.01, size=2.0),
        dict(side="BACK", price=1001, size=2.0),
        dict(side="BACK", price=3.0, size=2.005),
        dict(side="BACK", price=3.0, size=0),
        dict(side="BACK", price=2.0, size=0.5),
        dict(side="LAY", ot="MOC", liab=9.99),
        dict(side="LAY", ot="LOC", liab=10, price=3.02),
        dict(side="BACK", ot="MOC", liab=0.5),
    ]
    batches = []
    for b in bad:
        batches += [[V, b], [b, V], [V, b, V2], [b, b], [V, V2, b], [b, V2, b]]
    acts = []
    for k, bt in enumerate(batches):
        ex = [1] if k % 3 == 2 else []  # some batches are sent in two parts
        acts.append(["TX", [["P", dict(t, sel=1)] for t in bt], ex])
    spec = simx.MarketSpec(book0={1: {"atb": [[1.5, 10]], "atl": [[1000, 10]]}})
    w = simx.SimWorld(
        [(spec, [[1000, ["Q"]], [1000, ["Q"]]])],
        [dict(script={(0, 0): acts}, kw=dict(max_order_exposure=None, max_selection_exposure=None, max_live_trade_count=10**6))],
    ).run()
    st = w.strategies[0]
    sent = {id(o) for pk in w.packages for o in pk._orders}
    cs = {Decimal(h) / 100 for h in refs.CLASSIC}
    out, n = [], 0
    first = [e for e in st.log if e[2][0] == "P"]
    flat = [(bi, pi, t) for bi, bt in enumerate(batches) for pi, t in enumerate(bt)]
    if len(first) != len(flat) or len(st.known) != len(flat):
        raise core.HarnessError("batched slice: %d placements logged, %d orders, %d expected" % (len(first), len(st.known), len(flat)))
    for (bi, pi, t), (mi, tick, act, res), o in zip(flat, first, st.known):
        n += 1
        exp = refs.validate_order_ref(t.get("ot", "L"), t["side"], t.get("price"), t.get("size"), t.get("liab"), cs, cur, True)
        got = (res is True, id(o) in sent, any(o is b for b in w.all_orders()))
        case = dict(batch=batches[bi], position=pi)
        if exp and got != (True, True, True):
            out.append(core.v("C17.c", ("transaction", "CLASSIC", t.get("ot", "L"), "refused-valid"), "batch %r position %d: valid order not sent: %r" % (batches[bi], pi, got), case))
        if not exp and (got != (False, False, False) or o.status != OrderStatus.VIOLATION):
            out.append(core.v("C17.c", ("transaction", "CLASSIC", t.get("ot", "L"), "accepted-invalid"), "batch %r position %d: invalid order returned/sent/blotter=%r status=%s" % (batches[bi], pi, got, o.status), case))
    return dict(violations=out[:20], n=n)


POLLS = ("ok:SEK", "ok:GBP", "fail", "fail-details")


def _poll_histories(seqs):
    """the account poll worker (real worker.poll_account_balance -> BetfairClient.update_account_details) over every
    history of successful / failing polls: the minimums applied by OrderValidation are those of the currency last
    learnt - a failed poll must not make the client forget its currency (the GBP defaults are much lower)"""
    import betfairlightweight
    from betfairlightweight import BetfairError
    from betfairlightweight.metadata import currency_parameters
    from betfairlightweight.resources.accountresources import AccountDetails, AccountFunds
    from flumine import FlumineSimulation, BaseStrategy, clients, worker
    from flumine.controls.tradingcontrols import OrderValidation
    from flumine.order.trade import Trade
    from flumine.order.ordertype import LimitOrder, LimitOnCloseOrder

    out = []
    n = 0
    for seq in seqs:
        with core.owned_config(simulated=False):
            api = betfairlightweight.APIClient("verif", "x", app_key="k", certs="/nonexistent")
            bf = clients.BetfairClient(api)
            from mc import livex

            LiveFlumine, _ = livex.live_classes()
            fw = LiveFlumine(bf)
            st = BaseStrategy(market_filter={"markets": []}, name="val")
            ctl = OrderValidation(fw)
            state = {}

            class _Acc:
                def get_account_details(s_, *a, **k):
                    if state["poll"].startswith("fail"):
                        raise BetfairError("injected")
                    return AccountDetails(currencyCode=state["poll"].split(":")[1], discountRate=0)

                def get_account_funds(s_, *a, **k):
                    if state["poll"] == "fail":
                        raise BetfairError("injected")
                    return AccountFunds(availableToBetBalance=1000.0, exposure=0.0, retainedCommission=0.0, exposureLimit=-10000.0, discountRate=0.0, pointsBalance=0, wallet="UK")

            api.account = _Acc()
            known = None
            for k, poll in enumerate(seq):
                state["poll"] = poll
                worker.poll_account_balance({}, fw)
                if poll.startswith("ok"):
                    known = poll.split(":")[1]
                cp = currency_parameters[known or "GBP"]
                n += 1
                case = dict(polls=list(seq[: k + 1]))
                got = (bf.min_bet_size, bf.min_bet_payout, bf.min_bsp_liability)
                exp = (cp["min_bet_size"], cp["min_bet_payout"], cp["min_bsp_liability"])
                if got != exp:
                    out.append(core.v("C17.c", ("BetfairClient", "minimums", "after-" + poll.split(":")[0], "forgotten" if known else "default"), "after polls %s the client applies minimums %s, its currency %s has %s" % (list(seq[: k + 1]), got, known or "GBP (none learnt)", exp), case))
                    break
                # and through the control: a stake / liability just under the currency's minimum is refused
                for ot in ("L", "LOC"):
                    tr = Trade("1.1", 1, 0, st)
                    if ot == "L":
                        o = tr.create_order("BACK", LimitOrder(2.0, round(cp["min_bet_size"] - 0.5, 2)))
                    else:
                        o = tr.create_order("LAY", LimitOnCloseOrder(round(cp["min_bsp_liability"] - 0.5, 2), 2.0))
                    o.update_client(bf)
                    try:
                        ctl._validate(o, None)
                        ok = True
                    except Exception:
                        ok = False
                    if ok:
                        out.append(core.v("C17.c", ("OrderValidation", "CLASSIC", ot, "accepted-invalid-after-poll"), "after polls %s an order under the %s minimum was let through" % (list(seq[: k + 1]), known or "GBP"), case))
                        break
    return dict(violations=out, n=n)


def replay(rep):
    case = rep["case"]
    if "batch" in case:
        r = _api_batches()
        print([d["detail"] for d in r["violations"]][:3] or "no violation now")
        return 1 if r["violations"] else 0
    if "tmpl" in case:
        r = _api_slice(case.get("log_level"))
        print([d["detail"] for d in r["violations"]][:3] or "no violation now")
        return 1 if r["violations"] else 0
    if "polls" in case:
        r = _poll_histories([tuple(case["polls"])])
        print(r["violations"] or "no violation now")
        return 1 if r["violations"] else 0
    print("replaying", rep["finding_key"], case)
    from flumine import utils

    if "x" in case:
        out, b = [], set()
        _check_nearest(utils, case["x"], out, b)
        print(out or "no violation now")
        return 1 if out else 0
    if "n" in case and "price" in case:
        betdaq = case.get("ladder") == "BETDAQ"
        try:
            r = utils.price_ticks_away(case["price"], case["n"], prices=utils.BETDAQ_PRICES_FLOAT) if betdaq else utils.price_ticks_away(case["price"], case["n"])
        except Exception as e:
            print("raised", repr(e))
            return 1
        if betdaq:
            bd = [float(x) for x in refs.betdaq_ticks(utils.BETDAQ_CUTOFFS)]
            i = bd.index(case["price"])
            exp = bd[min(max(i + case["n"], 0), len(bd) - 1)]
            print(r, "expected", exp)
            return 1 if r != exp else 0
        exp = refs.ticks_away(refs.to_hundredths(case["price"]), case["n"])
        print(r, "expected", exp / 100)
        return 1 if refs.to_hundredths(r) != exp else 0
    if "ot" in case:
        _W.clear()  # fresh control instance, then the same sequence of line-ladder cases that preceded the failing one
        seq = [tuple(x[:8]) + (tuple(x[8]),) for x in case.get("prefix") or []]
        seq.append((case["currency"], case["min_bet_validation"], case["ot"], case["side"], case["price"], case["size"], case["liab"], case["ladder"], tuple(case["line"]) if case.get("line") else None))
        r = _val_chunk(seq)
        print(r["violations"] or "no violation now")
        return 1 if r["violations"] else 0
    print("nothing to replay for this case")
    return 0
