"""C14 Simulation is deterministic, complete and chronological — E1 simx (file sets, event groups,
listener filters, clock, clock restore) + separate-process differential over hash seeds / clock offsets."""
import datetime as _dt
import itertools
import json
import os
import subprocess
import sys

from mc import core, simx
from props import simlife as L

CLAUSES = {
    "C14.a": "every update passing the listener's filters is delivered exactly once",
    "C14.b": "event-grouped markets are interleaved in non-decreasing publish time with each market's order preserved; groups / single markets are contiguous",
    "C14.c": "during a run the framework clock equals the publish time of the update being processed",
    "C14.d": "after the run the real clock is restored, also when the run ends with an exception",
    "C14.e": "same data and strategies give identical orders, fills, statuses and profit in fresh processes with different hash seeds and wall-clock offsets",
}


class Hooks:
    def __init__(self):
        self.clock = []
        self.seen = []

    def strategy_tick(self, w, st, market, mb, tick):
        self.clock.append((_dt.datetime.utcnow(), mb.publish_time))
        self.seen.append((market.market_id, mb.publish_time_epoch, mb.status, mb.inplay))

    def orders(self, w, st, market, orders):
        self.clock.append((_dt.datetime.utcnow(), market.market_book.publish_time))

    def closed(self, w, st, market, mb):
        self.clock.append((_dt.datetime.utcnow(), mb.publish_time))
        self.seen.append((market.market_id, mb.publish_time_epoch, mb.status, mb.inplay))


def _merge_one(args):
    dtvecs, events, groups, ep = args[:4]
    starts = args[4] if len(args) > 4 else tuple(range(len(dtvecs)))
    # dtvecs: per market tuple of increments (ms); starts: per market offset of its first update (a market whose
    # file name sorts first may start later); events: per market event id; groups: {event: group}
    markets = []
    for i, dts in enumerate(dtvecs):
        spec = simx.MarketSpec(market_id="1.10000000%d" % (i + 1), event_id=events[i], book0=L.BOOK0, t0=simx.T0 + starts[i])
        ticks = [[dt, ["Q"]] for dt in dts]
        markets.append((spec, ticks))
    h = Hooks()
    # one order-placing action so that process_orders is exercised too
    script = {(0, 0): [L.P("PBn")]}
    w = simx.SimWorld(markets, [dict(script=script, kw=dict(max_order_exposure=None, max_selection_exposure=None))], hooks=h, event_processing=ep, event_groups=groups or None)
    w.run()
    out = []
    counts = {"clause:C14.a": 0, "clause:C14.b": 0, "clause:C14.c": 0, "clause:C14.d": 0, "equal_pt_across_markets": 0, "equal_pt_within_market": 0, "merged_groups": 0}
    case = dict(dtvecs=[list(d) for d in dtvecs], events=list(events), groups=groups, event_processing=ep, starts=list(starts))
    key = lambda pred: (ep, "none", pred)
    if w.run_exception is not None:
        out.append(core.v("C14.a", key("exception"), "run raised %r" % (w.run_exception,), case))
        return dict(violations=out, counts=counts, outcome=None)
    expected = []
    for i, (spec, ticks) in enumerate(markets):
        pts = w.pts[spec.market_id]
        expected.append([(spec.market_id, p) for p in pts])
        if len(set(pts)) < len(pts):
            counts["equal_pt_within_market"] += 1
    allp = [p for e in expected for _, p in e]
    if len(set(allp)) < len(allp):
        counts["equal_pt_across_markets"] += 1
    got = [(m, p) for (m, p, s, ip) in h.seen]
    # a) exactly once (as multisets; a market can carry equal publish times)
    counts["clause:C14.a"] += 1
    exp_all = sorted(x for e in expected for x in e)
    if sorted(got) != exp_all:
        pred = "missing" if len(got) < len(exp_all) else ("duplicate" if len(got) > len(exp_all) else "different")
        out.append(core.v("C14.a", key(pred), "delivered %d updates, data has %d: got %s" % (len(got), len(exp_all), got), case))
    aud = w.auditor.seen
    if sorted(aud) != exp_all:
        out.append(core.v("C14.a", key("second strategy"), "second strategy got %d of %d updates" % (len(aud), len(exp_all)), case))
    # b) per-market order preserved; grouping; chronology inside merged groups
    counts["clause:C14.b"] += 1
    for i, e in enumerate(expected):
        mine = [x for x in got if x[0] == e[0][0]]
        if mine != e:
            out.append(core.v("C14.b", key("market order"), "market %s delivered as %s" % (e[0][0], [p for _, p in mine]), case))
    grp = {}
    for i, (spec, _) in enumerate(markets):
        g = (groups or {}).get(events[i], events[i]) if ep else None
        grp[spec.market_id] = ("g", g) if (g and sum(1 for j in range(len(markets)) if ((groups or {}).get(events[j], events[j]) if ep else None) == g) > 1) else ("m", spec.market_id)
    blocks = []
    for m, p in got:
        b = grp[m]
        if not blocks or blocks[-1][0] != b:
            blocks.append((b, []))
        blocks[-1][1].append((m, p))
    names = [b for b, _ in blocks]
    if len(set(names)) != len(names):
        out.append(core.v("C14.b", key("contiguity"), "groups / markets are not contiguous: %s" % (names,), case))
    for b, items in blocks:
        if b[0] == "g":
            counts["merged_groups"] += 1
            ps = [p for _, p in items]
            if ps != sorted(ps):
                out.append(core.v("C14.b", key("chronology"), "event group %s delivered out of publish-time order: %s" % (b[1], items), case))
    # c) clock
    for now, pt in h.clock:
        counts["clause:C14.c"] += 1
        if now != pt:
            out.append(core.v("C14.c", key("clock"), "utcnow() %s != publish time %s" % (now, pt), case))
            break
    counts["clause:C14.d"] += 1
    if not w.datetime_restored:
        out.append(core.v("C14.d", key("restore"), "datetime.datetime not restored after run()", case))
    return dict(violations=_dedup(out), counts=counts, outcome=str((len(got), names)))


def _filter_one(args):
    # a 5th element True: the recording starts when the market is already in-play
    inplay0 = len(args) > 4 and bool(args[4])
    args = args[:4]
    return _filter_one_(args, inplay0)


def _filter_one_(args, inplay0=False):
    seq, inplay, s2s, mis = args
    spec = simx.MarketSpec(book0=L.BOOK0, market_time_offset_s=10, inplay0=bool(inplay0))
    ticks = [[dt, L.EVENTS[e] if isinstance(e, str) else e] for dt, e in seq]
    lk = {}
    if inplay is not None:
        lk["inplay"] = inplay
    if s2s is not None:
        lk["seconds_to_start"] = s2s
    if mis is not None:
        lk["max_inplay_seconds"] = mis
    h = Hooks()
    w = simx.SimWorld([(spec, ticks)], [dict(script={})], hooks=h, listener_kwargs=lk or None)
    w.run()
    out = []
    counts = {"clause:C14.a": 0, "filtered_out": 0, "delivered": 0}
    case = dict(seq=[list(x) for x in seq], inplay=inplay, seconds_to_start=s2s, max_inplay_seconds=mis, inplay0=bool(inplay0))
    fk = "+".join(k for k in ("inplay", "seconds_to_start", "max_inplay_seconds") if k in lk) or "none"
    key = lambda pred: (False, fk, pred)
    if w.run_exception is not None:
        out.append(core.v("C14.a", key("exception"), "run raised %r" % (w.run_exception,), case))
        return dict(violations=out, counts=counts, outcome=None)
    lines, pts = spec.gen(ticks)
    status, inp, t_ip = None, False, None
    mt = spec.t0 + spec.market_time_offset_s * 1000
    expected = []
    for ln, pt in zip(lines, pts):
        d = json.loads(ln)
        md = d["mc"][0].get("marketDefinition")
        was = inp
        if md:
            status, inp = md["status"], md["inPlay"]
            # the scheduled start as published by the latest definition (it can be moved)
            mt = int(_dt.datetime.strptime(md["marketTime"], "%Y-%m-%dT%H:%M:%S.%fZ").replace(tzinfo=_dt.timezone.utc).timestamp() * 1000)
        if inp and not was:
            t_ip = pt
        ok = True
        if status == "OPEN":
            if inplay is True and not inp:
                ok = False
            if inplay is False and inp:
                ok = False
            if inplay is not True and s2s and (mt - pt) / 1000.0 > s2s:
                ok = False
            if mis is not None and t_ip is not None and (pt - t_ip) / 1000.0 > mis:
                ok = False
        if ok:
            expected.append(pt)
        else:
            counts["filtered_out"] += 1
    got = [p for (m, p, s, ip) in h.seen]
    counts["delivered"] += len(got)
    counts["clause:C14.a"] += 1
    if got != expected:
        pred = "missing" if len(got) < len(expected) else ("duplicate" if len(got) > len(expected) else "different")
        out.append(core.v("C14.a", key(pred), "filters %s: delivered offsets %s, expected %s" % (lk, [p - spec.t0 for p in got], [p - spec.t0 for p in expected]), case))
    return dict(violations=out, counts=counts, outcome=str((fk, len(got), len(expected))))


LK_OPTIONS = (None, {}, {"inplay": False}, {"inplay": True}, {"max_inplay_seconds": 0}, {"max_inplay_seconds": 2}, {"seconds_to_start": 5}, {"inplay": False, "seconds_to_start": 5})


def _seen_with(seq, lks):
    spec = simx.MarketSpec(book0=L.BOOK0, market_time_offset_s=10)
    ticks = [[dt, L.EVENTS[e] if isinstance(e, str) else e] for dt, e in seq]
    strategies = [dict(script={}, name="F%d" % k, listener_kwargs=lk) if lk is not None else dict(script={}, name="F%d" % k) for k, lk in enumerate(lks)]
    w = simx.SimWorld([(spec, ticks)], strategies)
    w.run()
    return w, [[p - spec.t0 for (m, p) in st.seen] for st in w.strategies]


def _filter_pair(args):
    """two strategies on the same market file with their own listener filters, in both registration orders: each
    receives exactly what it receives alone (a stream is shared only by strategies with the same filters)"""
    seq, ia, ib = args
    out = []
    counts = {"clause:C14.a": 0, "filter_pairs": 0, "filter_pairs_differing": 0}
    la, lb = LK_OPTIONS[ia], LK_OPTIONS[ib]
    case = dict(pair_seq=[list(x) for x in seq], lk=[ia, ib])
    w0, (solo_a,) = _seen_with(seq, [la])
    w1, (solo_b,) = _seen_with(seq, [lb])
    w, (got_a, got_b) = _seen_with(seq, [la, lb])
    counts["clause:C14.a"] += 1
    counts["filter_pairs"] += 1
    if solo_a != solo_b:
        counts["filter_pairs_differing"] += 1
    for x in (w0, w1, w):
        if x.run_exception is not None:
            out.append(core.v("C14.a", (False, "pair", "exception"), "run raised %r" % (x.run_exception,), case))
            return dict(violations=out, counts=counts, outcome=None)
    for who, got, solo, lk in (("first", got_a, solo_a, la), ("second", got_b, solo_b, lb)):
        if got != solo:
            pred = "missing" if len(got) < len(solo) else ("extra" if len(got) > len(solo) else "different")
            out.append(core.v("C14.a", (False, "pair", pred), "strategy registered %s with filters %s next to one with %s: delivered offsets %s, alone %s" % (who, lk, lb if who == "first" else la, got, solo), case))
    return dict(violations=out, counts=counts, outcome=str((ia, ib, len(got_a), len(got_b))))


def _restore_one(args):
    """d) a strategy raises at update k with raise_errors=True: run() propagates, the clock must be restored."""
    k, = args
    Scripted, _ = simx.classes()

    class Raiser(Scripted):
        def process_market_book(self, market, market_book):
            if self.counts[market.market_id] == k:
                raise ValueError("boom")
            return super().process_market_book(market, market_book)

    spec = simx.MarketSpec(book0=L.BOOK0)
    real = _dt.datetime
    w = simx.SimWorld([(spec, [[200, ["Q"]]] * 3)], [dict(script={}, cls=Raiser)], cfg=dict(raise_errors=True))
    w.run()
    out = []
    case = dict(raise_at=k)
    if not isinstance(w.run_exception, ValueError):
        out.append(core.v("C14.d", (False, "none", "raise-not-propagated"), "raise_errors=True but run() ended with %r" % (w.run_exception,), case))
    if not w.datetime_restored or _dt.datetime is not real:
        out.append(core.v("C14.d", (False, "none", "restore-after-exception"), "datetime.datetime not restored after run() raised", case))
    return dict(violations=out, counts={"clause:C14.d": 1, "runs_ended_by_exception": 1}, outcome="restore%d" % k)


def _realtime_one(args):
    """a strategy uses the documented `simulated_datetime.real_time()` block and (at update k) raises inside it with
    raise_errors False: the framework clock must be the publish time again in every later callback"""
    k, raises = args
    Scripted, _ = simx.classes()
    h = Hooks()

    class RT(Scripted):
        def process_market_book(self, market, market_book):
            if self.counts[market.market_id] == k:
                self.counts[market.market_id] += 1
                with market.flumine.simulated_datetime.real_time():
                    if raises:
                        raise KeyError("boom")
                return
            return super().process_market_book(market, market_book)

    spec = simx.MarketSpec(book0=L.BOOK0)
    real = _dt.datetime
    w = simx.SimWorld([(spec, [[200, ["Q"]]] * 4)], [dict(script={(0, 3): [L.P("XB")]}, cls=RT, kw=dict(max_order_exposure=None, max_selection_exposure=None)), dict(script={}, name="other")], hooks=h)
    w.run()
    out = []
    case = dict(real_time_at=k, raises=raises)
    counts = {"clause:C14.c": 0, "clause:C14.d": 1, "real_time_blocks": 1}
    for now, pt in h.clock:
        counts["clause:C14.c"] += 1
        if now != pt:
            out.append(core.v("C14.c", (False, "none", "clock-after-real_time"), "utcnow() %s != publish time %s after a real_time() block%s" % (now, pt, " that raised" if raises else ""), case))
            break
    if w.run_exception is not None or not w.datetime_restored or _dt.datetime is not real:
        out.append(core.v("C14.d", (False, "none", "restore-after-real_time"), "run exception %r, datetime restored %s" % (w.run_exception, w.datetime_restored), case))
    orders = w.all_orders()
    if k < 3 and (not orders or str(orders[0].date_time_created) != str(_dt.datetime.utcfromtimestamp(w.pts[spec.market_id][3] / 1e3))):
        out.append(core.v("C14.c", (False, "none", "order-timestamp-after-real_time"), "order created at %s, update time %s" % (orders and orders[0].date_time_created, w.pts[spec.market_id][3]), case))
    return dict(violations=out, counts=counts, outcome="rt%d%s" % (k, raises))


def _dedup(vs, per_key=1):
    seen, out = {}, []
    for d in vs:
        k = tuple(d["key"])
        seen[k] = seen.get(k, 0) + 1
        if seen[k] <= per_key:
            out.append(d)
    return out


def _child_env(s, off, tz, order):
    env = dict(os.environ)
    env["PYTHONHASHSEED"] = s
    env["C14_CLOCK_OFFSET"] = str(off)
    env["TZ"] = tz  # the process time zone is part of the environment a run must not depend on
    env["C14_ORDER"] = order  # which simulations the process ran before each scenario
    env["PYTHONPATH"] = core.REPO + ":" + core.VERIF
    return env


def _children(envs):
    child = os.path.join(core.VERIF, "tools", "c14_child.py")
    procs = [(e, subprocess.Popen([sys.executable, child], env=_child_env(*e), stdout=subprocess.PIPE, stderr=subprocess.PIPE)) for e in envs]
    outs = []
    for e, p in procs:
        o, err = p.communicate(timeout=600)
        if p.returncode != 0:
            raise core.HarnessError("c14 child failed (seed %s offset %s tz %s order %s): %s" % (e + (err.decode()[-800:],)))
        outs.append((e, o))
    return outs


def _determinism(rep, thorough):
    envs = []
    seeds = ["0", "1", "2", "random"] + (["3", "12345", "random"] if thorough else [])
    offsets = [0, 86400, -400 * 86400]
    tzs = ["UTC0", "JST-9", "EST5"]
    orders = ("fwd", "rev", "fwd", "rot")
    for s in seeds:
        for off in offsets:
            k_ = len(envs)
            envs.append((s, off, tzs[k_ % len(tzs)], orders[k_ % 4]))
    outs = _children(envs)
    base = outs[0][1]
    n_sc = len(json.loads(base))
    rep.count("determinism_environments", len(outs), mandatory=True)
    rep.count("determinism_scenarios", n_sc, mandatory=True)
    rep.clause_evals("C14.e", len(outs) * n_sc)
    for e, o in outs[1:]:
        if o != base:
            a, b = json.loads(base), json.loads(o)
            diff = [k for k in a if a[k] != b.get(k)]
            rep.add_violations([core.v("C14.e", (False, "none", "determinism " + ",".join(diff[:2])), "ledger differs between (PYTHONHASHSEED, clock offset, time zone, order of the scenarios in the process) = %r and %r in scenarios %s" % (outs[0][0], e, diff), dict(env0=list(outs[0][0]), env1=list(e), scenarios=diff))])
    rep.traces += len(outs) * n_sc
    rep.transitions += len(outs) * n_sc
    return len(outs) * n_sc


def run(tier):
    rep = core.Report("C14", tier, "E1 simx + subprocess differential")
    thorough = tier == "thorough"
    jobs = []
    grid = (0, 1, 2, 3)
    vec1 = [v for n in (1, 2, 3) for v in itertools.product(grid, repeat=n)]
    for v in vec1:
        for ep in (False, True):
            jobs.append(((v,), ("e1",), None, ep))
    vec2 = [v for n in (1, 2) for v in itertools.product(grid, repeat=n)] + ([v for v in itertools.product(grid, repeat=3)] if thorough else [(0, 0, 0), (1, 2, 3), (3, 0, 1)])
    for a in vec2:
        for b in vec2:
            for events in (("e1", "e1"), ("e1", "e2")):
                for ep in (False, True):
                    jobs.append(((a, b), events, None, ep))
            jobs.append(((a, b), ("e1", "e2"), {"e2": "e1"}, True))  # different events mapped to one group
    small = [v for n in (1, 2) for v in itertools.product((0, 1, 3), repeat=n)]
    for a in small:
        for b in small:
            for c in small[:: (1 if thorough else 2)]:
                for events, groups in ((("e1", "e1", "e1"), None), (("e1", "e2", "e1"), None), (("e1", "e2", "e2"), None), (("e1", "e2", "e3"), {"e3": "e1"}), (("e2", "e1", "e2"), None)):
                    jobs.append(((a, b, c), events, groups, True))
                jobs.append(((a, b, c), ("e1", "e1", "e2"), None, False))
    # markets starting in every order (the first-named market later than / together with the others)
    base_jobs = list(jobs)
    for j in base_jobs:
        n = len(j[0])
        if n == 1:
            continue
        for starts in itertools.product((0, 2, 5), repeat=n):
            if starts == tuple(sorted(starts)) and len(set(starts)) == n:
                continue  # increasing start order is what the default already covers
            if n == 3 and (len(j[0][0]) > 1 or len(j[0][2]) > 1) and not thorough:
                continue
            if n == 2 and len(j[0][0]) + len(j[0][1]) > 3 and not thorough:
                continue
            jobs.append(j + (starts,))
    for r in core.pmap(_merge_one, jobs):
        rep.add_violations(r["violations"])
        rep.merge_counts(r["counts"])
        if r["outcome"]:
            rep.outcomes.add(r["outcome"])
    rep.sample(dict(zip(("dtvecs", "events", "groups", "event_processing"), jobs[len(jobs) // 2])))
    # listener filters
    seqs = []
    base = [(3000, "Q"), (3000, "Q"), (3000, "IP"), (3000, "Q"), (3000, "SUS"), (3000, "OPN"), (3000, "Q"), (3000, "CL")]
    seqs.append(base)
    seqs.append([(3000, "Q"), (3000, "SUS"), (3000, "IP"), (1000, "Q"), (1000, "Q"), (1000, "Q"), (3000, "CL")])
    seqs.append([(1000, "IP"), (500, "Q"), (600, "Q"), (3000, "Q")])
    seqs.append([(4000, "Q"), (999, "Q"), (1, "Q"), (1, "Q"), (5000, "IP"), (2000, "Q"), (1, "Q")])
    # the scheduled start is delayed, then brought forward, by plain definition updates
    seqs.append([(1000, "Q"), (1000, ["MT", 6]), (1000, "Q"), (1000, "Q"), (1000, ["MT", -9]), (1000, "Q"), (1000, "Q"), (3000, "IP"), (1000, "Q")])
    fj = []
    for seq in seqs:
        for inplay in (None, True, False):
            for s2s in (None, 5, 1):
                for mis in (None, 0, 2, 6):
                    fj.append((seq, inplay, s2s, mis))
    pj = [(seq, ia, ib) for seq in seqs[:2] for ia in range(len(LK_OPTIONS)) for ib in range(len(LK_OPTIONS))]
    for r in core.pmap(_filter_pair, pj):
        rep.add_violations(r["violations"])
        rep.merge_counts(r["counts"])
        if r["outcome"]:
            rep.outcomes.add(r["outcome"])
    rep.need("filter_pairs_differing")
    # recordings that start when the market is already in-play (the in-play clock starts with the first update)
    for seq in ([(1000, "Q"), (1000, "Q"), (2000, "Q"), (3000, "Q"), (1000, "SUS"), (1000, "OPN"), (1000, "Q")],):
        for inplay in (None, True, False):
            for mis in (None, 0, 2, 6):
                fj.append((seq, inplay, None, mis, True))
    for r in core.pmap(_filter_one, fj):
        rep.add_violations(r["violations"])
        rep.merge_counts(r["counts"])
        if r["outcome"]:
            rep.outcomes.add(r["outcome"])
    rj = [(k,) for k in (0, 1, 2)]
    for r in core.pmap(_restore_one, rj, nworkers=1):
        rep.add_violations(r["violations"])
        rep.merge_counts(r["counts"])
    for r in core.pmap(_realtime_one, [(k, raises) for k in (0, 1, 2) for raises in (False, True)], nworkers=1):
        rep.add_violations(r["violations"])
        rep.merge_counts(r["counts"])
    rep.sample(dict(zip(("seq", "inplay", "seconds_to_start", "max_inplay_seconds"), fj[len(fj) // 2])))
    n_det = _determinism(rep, thorough)
    rep.need("equal_pt_across_markets", "equal_pt_within_market", "merged_groups", "filtered_out", "delivered", "runs_ended_by_exception")
    rep.states = len(jobs) + len(fj) + len(rj)
    rep.transitions += rep.states
    rep.traces += rep.states
    rep.evaluations = sum(rep.clauses.values())
    rep.nontrivial = len(rep.outcomes)
    rep.bounds = dict(markets=[1, 2, 3], offsets_ms=list(grid), max_updates_per_market=3, filter_runs=len(fj), merge_runs=len(jobs), determinism_runs=n_det)
    rep.rule = "all file sets of 1-3 markets with update-time increment vectors over {0,1,2,3} ms (equal publish times across and within markets), every assignment to events / event groups, event_processing on/off; listener filters inplay x seconds_to_start x max_inplay_seconds over 4 update sequences; exception with raise_errors at each update; determinism over a finite set of hash seeds x clock offsets in fresh processes"
    rep.assumptions = [
        "merge specification (not algorithm): permutation of the passing updates, per-market order kept, non-decreasing publish time inside a group, groups contiguous; ties may go either way",
        "determinism is checked for a finite set of environments (hash seeds 0,1,2,random; clock offsets 0,+1d,-400d), not for all",
        "order / trade ids (uuid) are opaque and excluded from the determinism ledger; bet ids are included",
    ]
    return rep.finish()


def replay(rep):
    c = rep["case"]
    if "dtvecs" in c:
        r = _merge_one((tuple(tuple(d) for d in c["dtvecs"]), tuple(c["events"]), c["groups"], c["event_processing"], tuple(c.get("starts") or range(len(c["dtvecs"])))))
    elif "pair_seq" in c:
        r = _filter_pair(([tuple(x) for x in c["pair_seq"]], c["lk"][0], c["lk"][1]))
    elif "seq" in c:
        r = _filter_one(([tuple(x) for x in c["seq"]], c["inplay"], c["seconds_to_start"], c["max_inplay_seconds"], c.get("inplay0", False)))
    elif "raise_at" in c:
        r = _restore_one((c["raise_at"],))
    elif "real_time_at" in c:
        r = _realtime_one((c["real_time_at"], c["raises"]))
    elif "env1" in c:
        outs = _children([tuple(c["env0"]), tuple(c["env1"])])
        a, b = json.loads(outs[0][1]), json.loads(outs[1][1])
        diff = [k for k in a if a[k] != b.get(k)]
        print("scenarios that differ between %r and %r: %s" % (c["env0"], c["env1"], diff or "none now"))
        return 1 if diff else 0
    else:
        print("nothing to replay for this case")
        return 0
    for d in r["violations"]:
        print(d["key"], d["detail"])
    return 1 if r["violations"] else 0
