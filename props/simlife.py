"""Shared lifecycle exploration of the real simulated exchange (E1) with per-property oracle bundles:
C03 (lifecycle), C04 (size conservation), C10 (trade/runner accounting), C15 (blotter views).
Each property check picks its bundle, alphabet and bounds; all of them execute complete real runs."""
import itertools

from mc import core, simx

# --------------------------------------------------------------------------------------
# world

BOOK0 = {
    1: {"atb": [[2.0, 10], [1.9, 10]], "atl": [[2.2, 10], [2.4, 10]], "trd": [[2.0, 20], [2.2, 20]], "ltp": 2.0},
    2: {"atb": [[3.0, 10]], "atl": [[3.2, 10]], "trd": [[3.0, 20]]},
}

# order templates (name -> template)
TEMPLATES = {
    "PB": dict(sel=1, side="BACK", price=2.2, size=5.0),  # passive, 10 queued ahead
    "PBn": dict(sel=1, side="BACK", price=2.1, size=5.0),  # passive, nothing queued
    "XB": dict(sel=1, side="BACK", price=2.0, size=5.0),  # filled at once
    "XBp": dict(sel=1, side="BACK", price=2.0, size=15.0),  # 10 filled, 5 rests
    "TB": dict(sel=1, side="BACK", price=1.95, size=12.0),  # through the book: 10 @ 2.0, rest rests
    "PL": dict(sel=1, side="LAY", price=2.1, size=5.0),  # passive lay, nothing queued
    "XL": dict(sel=1, side="LAY", price=2.2, size=4.0),  # lay filled at once
    "FOK": dict(sel=1, side="BACK", price=2.0, size=15.0, tif="FILL_OR_KILL", mf=5.0),
    "PBp": dict(sel=1, side="BACK", price=2.1, size=5.0, pers="PERSIST"),
    "PBm": dict(sel=1, side="BACK", price=2.1, size=5.0, pers="MARKET_ON_CLOSE"),
    "PLm": dict(sel=1, side="LAY", price=2.1, size=5.0, pers="MARKET_ON_CLOSE"),
    "LOC": dict(sel=1, side="LAY", ot="LOC", liab=10.0, price=3.0),
    "MOC": dict(sel=1, side="BACK", ot="MOC", liab=5.0),
    "MOCL": dict(sel=1, side="LAY", ot="MOC", liab=10.0),
    "PBv": dict(sel=1, side="BACK", price=2.1, size=5.0, mv="bad"),  # wrong market version
    "PBc": dict(sel=1, side="BACK", price=2.1, size=5.0, mv="cur"),
    "P2": dict(sel=2, side="BACK", price=3.1, size=4.0),  # other runner, passive
    "X2": dict(sel=2, side="LAY", price=3.2, size=4.0),  # other runner, matched
    "M2": dict(sel=2, side="LAY", ot="MOC", liab=10.0),
}

EVENTS = {
    "Q": ["Q"],
    "T21": ["T", 1, [[2.1, 8]]],  # fills passive BACK@2.1 by 4
    "T22": ["T", 1, [[2.2, 24]]],  # 12 eligible: clears the queue of 10 at 2.2, 2 left
    "T20": ["T", 1, [[2.0, 8]]],
    "T2x": ["T", 1, [[2.1, 6], [2.2, 6]]],
    "T3": ["T", 2, [[3.1, 8]]],
    "B": ["B", 1, "atb", [[2.1, 6], [2.0, 10]]],
    "SUS": ["SUS"],
    "OPN": ["OPN"],
    "IP": ["IP", {1: 2.1, 2: 3.1}, 1],
    "IP0": ["IP", {}, 1],  # in-play, SP not available
    "RM1": ["RM", 1, 30.0],
    "SUSRM1": ["M", [["SUS"], ["RM", 1, 30.0]]],  # non-runner declared in a SUSPENDED book with a new version
    "RM2": ["RM", 2, 20.0],
    "RM1T3": ["M", [["RM", 1, 30.0], ["T", 2, [[3.1, 8]]]]],  # the removal update also carries trades on the other runner
    "RM2T21": ["M", [["RM", 2, 20.0], ["T", 1, [[2.1, 8]]]]],
    "RM2s": ["RM", 2, 2.0],
    "CL": ["CL", {1: "WINNER", 2: "LOSER"}],
    "CL2": ["CL", {1: "LOSER", 2: "WINNER"}],
}


def P(name, **over):
    t = dict(TEMPLATES[name])
    t.update(over)
    return ["P", t]


def tick(dt, ev="Q", acts=()):
    return [dt, EVENTS[ev] if isinstance(ev, str) else ev, list(acts)]


def split_history(hist, n_strategies=1):
    """history (list of [dt, ev, acts]) -> (ticks for MarketSpec.gen, one script per strategy).
    Actions of history tick i are issued in process_market_book of update i (update 0 = initial image),
    the market event of history tick i arrives as update i+1.  An action ["@", k, act] belongs to
    strategy k, a plain action to strategy 0."""
    ticks, scripts = [], [dict() for _ in range(n_strategies)]
    for i, (dt, ev, acts) in enumerate(hist):
        ticks.append([dt, ev])
        for a in acts:
            if a[0] == "@":
                scripts[a[1]].setdefault((0, i), []).append(a[2])
            else:
                scripts[0].setdefault((0, i), []).append(a)
    return ticks, scripts


# --------------------------------------------------------------------------------------
# oracles

LEGAL = {
    None: {"PENDING", "VIOLATION"},
    "PENDING": {"EXECUTABLE", "EXECUTION_COMPLETE", "PENDING"},
    "EXECUTABLE": {"CANCELLING", "UPDATING", "REPLACING", "EXECUTION_COMPLETE", "EXECUTABLE"},
    "CANCELLING": {"EXECUTABLE", "EXECUTION_COMPLETE"},
    "UPDATING": {"EXECUTABLE", "EXECUTION_COMPLETE"},
    "REPLACING": {"EXECUTABLE", "EXECUTION_COMPLETE"},
    "EXECUTION_COMPLETE": {"EXECUTION_COMPLETE"},
    "VIOLATION": {"VIOLATION"},  # refusing a request on a never-placed order again is a stutter
    "EXPIRED": set(),
}


def sname(s):
    return s.name if s is not None else None


def order_kind(o):
    return o.order_type.ORDER_TYPE.name


def snapshot(w, o):
    """Everything a refused request must leave untouched (public surface only)."""
    m = w.framework.markets.markets.get(o.market_id)
    st = o.trade.strategy
    rc = st.get_runner_context(*o.lookup)
    in_blotter = m is not None and o.id in m.blotter
    live = m is not None and any(x is o for x in m.blotter.live_orders)
    return (
        sname(o.status),
        len(o.status_log),
        tuple(sorted((k, repr(v)) for k, v in o.update_data.items())),
        getattr(o.order_type, "persistence_type", None),
        getattr(o.order_type, "price", None),
        sname(o.trade.status),
        len(o.trade.status_log),
        in_blotter,
        live,
        tuple(rc.trades),
        tuple(rc.live_trades),
        rc.datetime_last_placed,
        rc.datetime_last_reset,
        o.complete,
        o.violation_msg,
    )


SNAP_FIELDS = (
    "status", "status_log", "update_data", "persistence", "price", "trade.status", "trade.status_log",
    "in_blotter", "in_live_list", "context.trades", "context.live_trades", "context.last_placed",
    "context.last_reset", "complete", "violation_msg",
)


def snap_diff(a, b):
    return [SNAP_FIELDS[i] for i in range(len(a)) if a[i] != b[i]]


class Life:
    """Hook object: evaluates the enabled oracle bundles while the real run executes."""

    def __init__(self, enabled, hist, extra=None):
        self.en = set(enabled)
        self.hist = hist
        self.viol = []
        self.counts = {}
        self.led = {}  # id(order) -> ledger dict
        self.sent_complete = {}  # id(order) -> size_matched when first seen complete after being sent
        self.executed_now = []  # package types executed during the current update
        self.pre = None
        self.canon = None
        self.n_ticks = len(hist)
        self.extra = extra or {}
        self.trans = []
        self.trade_completions = {}
        self.ctx_log = []
        self.completions = {}
        self.accepted = {}  # runner key -> [(time, trade)]
        self.executed_packages = set()
        self.placed_client = {}
        self.reused_trades = set()  # trades that received an order after they had completed (outside the domain of a/b/d/e)
        self.tainted = set()  # runner keys of such trades
        self.keep_packages = []
        self.upd = 0  # index of the update being processed (0 = initial image)
        self.reported = set()

    # -- helpers
    def c(self, name, n=1):
        self.counts[name] = self.counts.get(name, 0) + n

    def v(self, clause, key, detail, once=None):
        if once is not None:
            if (clause, once) in self.reported:
                return
            self.reported.add((clause, once))
        self.viol.append(core.v(clause, key, detail, {"history": self.hist, "cfg": self.extra.get("cfg")}, size=_hsize(self.hist)))

    # -- status transitions: C03.a, C03.c, C10.e
    def status(self, w, o, prev, new, site):
        p, n = sname(prev), sname(new)
        self.trans.append((p, n))
        if "C03" in self.en:
            self.c("clause:C03.a")
            if n not in LEGAL.get(p, set()):
                self.v("C03.a", (site, "%s->%s" % (p, n)), "illegal transition %s -> %s at %s (order %s %s)" % (p, n, site, order_kind(o), o.side))
            if p in ("CANCELLING", "UPDATING", "REPLACING"):
                self.c("response_to_inflight_request")
        if "C03" in self.en and n == "EXECUTION_COMPLETE" and p not in (None, "VIOLATION") and o.simulated and id(o) not in self.sent_complete:
            # finality is judged from the very call that reports the order complete (simulation: the sizes are
            # final there), not from the next sampling point - a fill later in the same cycle counts
            self.sent_complete[id(o)] = o.size_matched
        elif id(o) in self.sent_complete and "C03" in self.en:
            if not o.complete:
                self.c("clause:C03.c")
                self.v("C03.c", (site, "complete-flag", "%s->%s" % (p, n)), "order reported complete became live again: %s -> %s at %s" % (p, n, site))

    def trade_status(self, w, t, prev, new, site):
        if "C10" in self.en and id(t) not in self.reused_trades:
            p, n = sname(prev), sname(new)
            self.c("clause:C10.e")
            ok = {
                "LIVE": {"PENDING", "COMPLETE", "LIVE"},
                "PENDING": {"LIVE", "PENDING"},
                "COMPLETE": {"PENDING"},
            }
            if n not in ok.get(p, set()):
                self.v("C10.e", ("trade-log", "%s->%s" % (p, n), site), "trade status %s -> %s at %s" % (p, n, site))
            if n == "COMPLETE":
                self.completions.setdefault((t.market_id, t.selection_id, t.handicap, id(t.strategy)), []).append(_now())
                self.c("trade_completions")
                live = [x for x in t.orders if not x.complete]
                if live:
                    self.v("C10.b", ("completion", "while-live", site), "trade completed while %d order(s) not complete" % len(live))

    # -- requests: C03.b (+ snapshot for refused requests)
    def pre_action(self, w, st, market, act, o):
        self.pre = (snapshot(w, o), self._can(o, act)) if act[0] in ("C", "U", "R") else None
        self.trade_was_complete = act[0] == "P" and o is not None and sname(o.trade.status) == "COMPLETE"

    def _can(self, o, act):
        k = act[0]
        if sname(o.status) != "EXECUTABLE" or o.bet_id is None:
            return False, "status/bet-id"
        kind = order_kind(o)
        if k == "C":
            if kind != "LIMIT":
                return False, "type"
            red = act[2] if len(act) > 2 else None
            if red and o.size_remaining - red < 0:
                return False, "args"
            return True, ""
        if k == "U":
            if kind != "LIMIT":
                return False, "type"
            if o.order_type.persistence_type == act[2]:
                return False, "args"
            return True, ""
        if k == "R":
            if kind not in ("LIMIT", "LIMIT_ON_CLOSE"):
                return False, "type"
            if o.order_type.price == act[2]:
                return False, "args"
            return True, ""
        return True, ""

    def post_action(self, w, st, market, act, o, out):
        if act[0] in ("P", "PA") and out is True and o is not None:
            # the client whose transaction placed the order (default client unless the strategy names one)
            clients = getattr(w, "clients", None) or [getattr(w, "client", None)]
            if act[0] == "PA":
                self.placed_client[id(o)] = clients[act[2]]
            else:
                self.placed_client[id(o)] = clients[getattr(st, "client_idx", 0)]
            self.keep_packages.append(o)
        if act[0] == "PA":
            self.c("re_placed_after_refusal" if out is True else "re_place_refused")
            return
        if act[0] == "P":
            self.c("placed" if out is True else "place_refused")
            if "C10" in self.en and o is not None:
                self._c10_decision(w, st, market, act, o, out)
            return
        if o is None or self.pre is None:
            return
        before, (can, why) = self.pre
        self.pre = None
        st_before = before[0]
        k = {"C": "cancel", "U": "update", "R": "replace"}[act[0]]
        if isinstance(out, str) and out.startswith("raise!"):
            self.v("C03.b", (st_before, k, "unexpected-exception"), "request %s in status %s raised %s" % (k, st_before, out))
            return
        if "C03" in self.en:
            self.c("clause:C03.b")
            if out is True:
                self.c("request_accepted")
                if not can:
                    self.v("C03.b", (st_before, k, "accepted-but-should-raise", why), "%s accepted in status %s (%s)" % (k, st_before, why))
            elif isinstance(out, str) and out.startswith("raise:"):
                self.c("request_rejected")
                if st_before not in ("EXECUTABLE",):
                    self.c("request_rejected_while_in_flight_or_final")
                if can:
                    self.v("C03.b", (st_before, k, "raised-but-should-accept"), "%s raised %s in status %s" % (k, out, st_before))
                after = snapshot(w, o)
                d = snap_diff(before, after)
                if d:
                    self.v("C03.b", (st_before, k, "side-effect", d[0]), "rejected %s (%s) changed %s" % (k, out, d))
        if "C02" in self.en and out is False:
            after = snapshot(w, o)
            d = snap_diff(before, after)
            self.c("clause:C02.a")
            if d:
                self.v("C02.a", (k, _viol_control(o), st_before, d[0]), "refused %s changed %s" % (k, d))

    # -- execution bookkeeping for C04.e; C03: one operation in flight
    def pre_execute(self, w, package):
        self.executed_now.append(package.package_type.name)
        if "C03" in self.en:
            t = package.package_type.name
            want = {"CANCEL": "CANCELLING", "UPDATE": "UPDATING", "REPLACE": "REPLACING", "PLACE": "PENDING"}[t]
            for o in package._orders:
                self.c("clause:C03.b")
                st = sname(o.status)
                # the order either still waits for exactly this request or has completed meanwhile
                if st not in (want, "EXECUTION_COMPLETE", "VIOLATION"):
                    self.v("C03.b", (st, t.lower(), "executed-without-request"), "a %s reaches the exchange for an order in status %s (a second operation for one order, or a stale request)" % (t, st))
            key = id(package)
            if key in self.executed_packages:
                self.v("C03.b", ("-", t.lower(), "package-executed-twice"), "the same %s package was executed twice" % t)
            self.executed_packages.add(key)
            self.keep_packages.append(package)

    # -- sampling points
    def after_mw(self, w, market):
        self.upd = w.tick_no + 1
        self._sample(w, market, "middleware")

    def orders(self, w, st, market, orders):
        self._sample(w, market, "process_orders", strict=True)

    def tick_end(self, w, market, mb):
        self._sample(w, market, "tick_end", strict=True)
        if "C10" in self.en:
            self._c10(w, market)
        if "C15" in self.en:
            self._c15(w, market)
        self.executed_now = []
        if w.tick_no == self.n_ticks:
            try:
                self.canon = simx.canon_world(w)
            except simx.CanonUnavailable:
                self.canon = None

    def closed_end(self, w, market, mb):
        self.upd = w.tick_no + 1
        # closure: the completion sweep does not run on a CLOSED update (C20's domain), so the
        # "complete <=> nothing remains" clause is sampled at market-book / order callbacks only
        self._sample(w, market, "closed", strict=False)
        if "C15" in self.en:
            self._c15(w, market)

    # -- C04
    def _sample(self, w, market, where, strict=False):
        mb = market.market_book
        removed = {(r.selection_id, r.handicap) for r in mb.runners if r.status == "REMOVED"} if mb is not None else set()
        for o in market.blotter:
            kind = order_kind(o)
            s = o.simulated
            cur = (s.size_matched, s.size_cancelled, s.size_lapsed, s.size_voided, o.size_remaining, len(s.matched))
            led = self.led.get(id(o))
            if led is None:
                led = self.led[id(o)] = dict(prev=(0, 0.0, 0.0, 0.0, None, 0), sent=False)
            if sname(o.status) not in (None, "VIOLATION"):
                led["sent"] = True
            prev = led["prev"]
            st = sname(o.status)
            # an order that was refused before it was ever sent is outside; one that WAS sent stays inside whatever
            # its status says later
            if "C04" in self.en and kind == "LIMIT" and (st != "VIOLATION" or led["sent"]):
                size = o.order_type.size
                matched, canc, laps, void, rem, nfr = cur
                self.c("clause:C04.a")
                lay_sp = o.side == "LAY" and o.order_type.persistence_type == "MARKET_ON_CLOSE" and mb is not None and mb.bsp_reconciled
                key = lambda bucket, sign: (bucket, sign, _evkinds(self.hist, self.upd), st)
                if matched < -1e-9:
                    self.v("C04.a", key("matched", "negative"), "size_matched %s" % matched, once=(id(o), "m"))
                if rem < -1e-9:
                    self.v("C04.a", key("remaining", "negative"), "size_remaining %s (size %s matched %s cancelled %s lapsed %s voided %s)" % (rem, size, matched, canc, laps, void), once=(id(o), "r"))
                if not lay_sp:
                    for nm, val in (("cancelled", canc), ("lapsed", laps), ("voided", void)):
                        if val < -1e-9:
                            self.v("C04.a", key(nm, "negative"), "%s %s" % (nm, val), once=(id(o), nm))
                tot = matched + canc + laps + void + rem
                if abs(tot - size) > 0.0051:
                    self.v("C04.a", key("sum", "over" if tot > size else "under"), "size %s != matched %s + remaining %s + cancelled %s + lapsed %s + voided %s" % (size, matched, rem, canc, laps, void), once=(id(o), "s"))
                # b) matched = sum of fragments
                self.c("clause:C04.b")
                fsum = sum(z for _, _, z in s.matched)
                if abs(fsum - matched) > 0.0051:
                    self.v("C04.b", key("matched", "fragments"), "size_matched %s but fragments sum to %s" % (matched, fsum), once=(id(o), "f"))
                # d) matched monotone except void on removal of its own runner
                self.c("clause:C04.d")
                if matched < prev[0] - 1e-9:
                    if not ((o.selection_id, o.handicap) in removed and matched == 0):
                        self.v("C04.d", key("matched", "decrease"), "size_matched fell %s -> %s" % (prev[0], matched))
                    else:
                        self.c("void_on_removal_of_matched")
                # e) bucket moves only for the events that just happened
                if prev[4] is not None:
                    self.c("clause:C04.e")
                    ex = set(self.executed_now)
                    dc, dl, dv = canc - prev[1], laps - prev[2], void - prev[3]
                    susp = mb is not None and mb.status == "SUSPENDED"
                    sp_now = mb is not None and mb.bsp_reconciled
                    if dc > 1e-9 and not (ex & {"CANCEL", "REPLACE", "PLACE"}) and not sp_now:
                        self.v("C04.e", key("cancelled", "unexplained"), "cancelled grew by %s with no cancel/replace/placement executed" % dc)
                    if dl > 1e-9 and not (susp or "PLACE" in ex or "REPLACE" in ex or sp_now):
                        self.v("C04.e", key("lapsed", "unexplained"), "lapsed grew by %s without suspension or placement" % dl)
                    if dv > 1e-9 and not ((o.selection_id, o.handicap) in removed or "PLACE" in ex or "REPLACE" in ex):
                        self.v("C04.e", key("voided", "unexplained"), "voided grew by %s without runner removal or placement" % dv)
                # c) at strategy callbacks: complete <=> nothing remains (orders that reached the exchange)
                if strict and st not in ("PENDING", None):
                    self.c("clause:C04.c")
                    if o.complete != (rem == 0):
                        self.v("C04.c", key("complete-flag", "complete-with-remaining" if o.complete else "live-with-nothing-remaining"), "complete=%s but size_remaining=%s (status %s)" % (o.complete, rem, st), once=(id(o), "c"))
                if canc > 0 and (0 < matched):
                    self.c("partly_matched_partly_cancelled")
            led["prev"] = cur
            # C03.c finality of sent orders
            if "C03" in self.en and led["sent"]:
                if id(o) in self.sent_complete:
                    self.c("clause:C03.c")
                    m0 = self.sent_complete[id(o)]
                    if not o.complete:
                        self.v("C03.c", (where, "complete-flag", st), "order reported complete is live again (status %s)" % st, once=(id(o), "live"))
                    elif abs(o.size_matched - m0) > 1e-9 and not ((o.selection_id, o.handicap) in removed and o.size_matched == 0):
                        self.v("C03.c", (where, "size_matched", st), "matched size changed after completion: %s -> %s" % (m0, o.size_matched), once=(id(o), "sm"))
                    if (o.selection_id, o.handicap) in removed and o.size_matched == 0:
                        self.sent_complete[id(o)] = 0
                elif o.complete and st == "EXECUTION_COMPLETE":
                    self.sent_complete[id(o)] = o.size_matched

    # -- C10 accounting (end of tick)
    def _c10(self, w, market):
        for st in w.strategies:
            placed = [o for o in market.blotter.strategy_orders(st)]
            by_ctx = {}
            for o in placed:
                by_ctx.setdefault(o.lookup, []).append(o)
            for lookup, orders in by_ctx.items():
                if (lookup[0], lookup[1], lookup[2], id(st)) in self.tainted:
                    # a trade that was given an order after it had completed: counts and trade status are outside
                    # the domain, but the runner must still be released once every order on it is complete
                    self.c("clause:C10.d")
                    mb_ = market.market_book
                    active = mb_ is not None and mb_.status != "CLOSED" and any((r.selection_id, r.handicap) == (lookup[1], lookup[2]) and r.status == "ACTIVE" for r in mb_.runners)
                    # (a lock-out is the inability to bet: on a removed runner or a closed market nothing can be placed
                    # anyway - there a reused trade whose last order was voided before it executed stays charged)
                    if active and all(o.complete for o in orders) and st.get_runner_context(*lookup).live_trades:
                        self.v("C10.d", ("lock-out", "reused-trade", _evkinds(self.hist, self.upd)), "every order on runner %s is complete but %d trade(s) are still charged as live (a completed trade was given a further order)" % (lookup[1:], len(st.get_runner_context(*lookup).live_trades)), once=(lookup, "reused-lock"))
                    continue
                rc = st.get_runner_context(*lookup)
                trades = []
                for o in orders:
                    if o.trade.id not in trades:
                        trades.append(o.trade.id)
                live = []
                for o in orders:
                    if not o.complete and o.trade.id not in live:
                        live.append(o.trade.id)
                self.c("clause:C10.a")
                ev = _evkinds(self.hist, self.upd)
                if sorted(rc.live_trades) != sorted(live):
                    pred = "live-set-extra" if len(rc.live_trades) > len(live) else "live-set-missing"
                    self.v("C10.a", (pred, ev), "runner %s live_trades %d but %d trades have an order not complete" % (lookup[1:], len(rc.live_trades), len(live)))
                if rc.trade_count != len(trades):
                    self.v("C10.a", ("trade-count", ev), "trade_count %d but %d distinct trades placed" % (rc.trade_count, len(trades)))
                # b) trade COMPLETE <=> all its orders complete
                seen_t = set()
                for o in orders:
                    t = o.trade
                    if id(t) in seen_t or t.pending_orders:
                        continue
                    seen_t.add(id(t))
                    self.c("clause:C10.b")
                    allc = all(x.complete for x in t.orders)
                    if (sname(t.status) == "COMPLETE") != allc:
                        self.v("C10.b", ("completion", "complete-but-live" if not allc else "all-complete-but-%s" % sname(t.status), ev), "trade %s with orders %s" % (sname(t.status), [sname(x.status) for x in t.orders]))
                    if sname(t.status) == "PENDING":
                        self.v("C10.b", ("completion", "left-pending", ev), "trade left PENDING at end of update")
                if not live:
                    self.c("runner_all_complete")

    def _cfg_limit(self, st, name):
        """the limit as CONFIGURED for the run (a value of 0 is a limit), not what the strategy object made of it"""
        cfg = getattr(self, "skw", None) or {}
        if name in cfg and cfg[name] is not None:
            return cfg[name]
        return getattr(st, name)

    def _c10_decision(self, w, st, market, act, o, out):
        """c) an accepted placement respects max_trade_count / max_live_trade_count / cool-downs, judged from
        the real state of the orders; d) no lock-out once every order on the runner is complete."""
        key = (o.market_id, o.selection_id, o.handicap, id(st))
        now = _now()
        t = o.trade
        if getattr(self, "trade_was_complete", False):
            # an order added to an already completed trade: only the limits at acceptance (clause c) are judged
            self.c("orders_added_to_completed_trade")
            if out is True:
                self.reused_trades.add(id(t))
                self.tainted.add(key)
        acc = self.accepted.setdefault(key, [])
        others = [x for x in market.blotter.strategy_selection_orders(st, o.selection_id, o.handicap) if x is not o]
        live_trades = []
        for x in others:
            if not x.complete and not any(x.trade is y for y in live_trades):
                live_trades.append(x.trade)
        same_live = any(t is y for y in live_trades)
        multi_exempt = bool(st.multi_order_trades and same_live)
        placed_trades = []
        for _, tr in acc:
            if not any(tr is y for y in placed_trades):
                placed_trades.append(tr)
        comps = self.completions.get(key, [])
        last_comp = comps[-1] if comps else None
        last_placed = acc[-1][0] if acc else None
        ev = _evkinds(self.hist, self.upd)
        forced = bool(act[1].get("force"))
        if out is True:
            self.c("clause:C10.c")
            if not forced:
                new_trade = not any(t is y for y in placed_trades)
                n_tr = len(placed_trades) + (1 if new_trade else 0)
                # only a placement that ADDS a trade can breach the count (forced placements skip the controls)
                if new_trade and n_tr > self._cfg_limit(st, "max_trade_count"):
                    self.v("C10.c", ("limit", "max_trade_count", ev), "placement accepted: %d distinct trades > max_trade_count %s" % (n_tr, self._cfg_limit(st, "max_trade_count")))
                n_live = len(live_trades) + (0 if same_live else 1)
                if not same_live and n_live > self._cfg_limit(st, "max_live_trade_count"):
                    self.v("C10.c", ("limit", "max_live_trade_count", ev), "placement accepted: %d live trades > max_live_trade_count %s" % (n_live, self._cfg_limit(st, "max_live_trade_count")))
                if not multi_exempt:
                    if last_placed is not None and (now - last_placed).total_seconds() < t.place_reset_seconds:
                        self.v("C10.c", ("cool-down", "place_reset_seconds", ev), "placement accepted %.3fs after the previous one (place_reset_seconds %s)" % ((now - last_placed).total_seconds(), t.place_reset_seconds))
                    if last_comp is not None and (now - last_comp).total_seconds() < t.reset_seconds:
                        self.c("placement_inside_reset_window")
                        self.v("C10.c", ("cool-down", "reset_seconds", ev), "placement accepted %.3fs after the last completed trade (reset_seconds %s)" % ((now - last_comp).total_seconds(), t.reset_seconds))
            acc.append((now, t))
        elif out is False:
            msg = o.violation_msg or ""
            if "strategy.validate_order failed" in msg and key not in self.tainted and not getattr(self, "trade_was_complete", False):
                self.c("clause:C10.d")
                self.c("refused_by_accounting")
                all_complete = all(x.complete for x in others)
                cool = (last_placed is None or (now - last_placed).total_seconds() >= t.place_reset_seconds) and (last_comp is None or (now - last_comp).total_seconds() >= t.reset_seconds)
                room = (len(placed_trades) < self._cfg_limit(st, "max_trade_count")) or any(t is y for y in placed_trades)
                if all_complete and cool and room and self._cfg_limit(st, "max_live_trade_count") >= 1:
                    self.v("C10.d", ("lock-out", msg.split("failed:")[1].split("(")[0].strip() if "failed:" in msg else "-", ev), "placement refused although every order on the runner is complete: %s" % msg)

    # -- C15 blotter coherence (end of tick)
    def _c15(self, w, market):
        b = market.blotter
        orders = list(b)
        self.c("clause:C15.a")
        ids = [o.id for o in orders]
        if len(set(ids)) != len(ids) or len({id(o) for o in orders}) != len(orders):
            self.v("C15.a", ("orders", "duplicate", "-"), "order appears twice in the blotter")
        # every order accepted by place_order is in the blotter
        for st in w.strategies:
            for (mi, tk, act, out), o in _placed(st):
                accepted = out is True or id(o) in self.placed_client  # incl. refused first, offered again and accepted
                if accepted and not any(o is x for x in orders):
                    self.v("C15.a", ("orders", "missing", "placed"), "accepted order missing from the blotter")
                if not accepted and out is False and any(o is x for x in orders):
                    self.v("C15.a", ("orders", "extra", "refused"), "refused order present in the blotter")
        def once(view_name, view, o, origin):
            n = sum(1 for x in view if x is o)
            if n != 1:
                self.v("C15.a", (view_name, "missing" if n == 0 else "duplicate", origin), "order appears %d times in view %s" % (n, view_name))
        for o in orders:
            origin = "replacement" if getattr(o, "_verif_origin", None) is None and _is_replacement(w, o) else "placed"
            st = o.trade.strategy
            # the order belongs to the client that placed it (a replacement: the client of the order it replaces)
            exp_client = self.placed_client.get(id(o))
            if exp_client is None and origin == "replacement":
                for x in o.trade.orders:
                    if id(x) in self.placed_client:
                        exp_client = self.placed_client[id(x)]
                        break
            if exp_client is not None:
                self.c("clause:C15.a")
                if o.client is not exp_client or not any(x is o for x in b.client_orders(exp_client)) or not any(x is o for x in b.client_strategy_orders(exp_client, st)):
                    self.v("C15.a", ("client", "wrong-client", origin), "order placed through client %s is filed under client %s" % (exp_client.username, getattr(o.client, "username", None)))
            once("strategy", b.strategy_orders(st), o, origin)
            once("strategy_selection", b.strategy_selection_orders(st, o.selection_id, o.handicap), o, origin)
            once("client", b.client_orders(o.client), o, origin)
            once("client_strategy", b.client_strategy_orders(o.client, st), o, origin)
            tr = b.get_trade(o.trade.id)
            if tr is not o.trade:
                self.v("C15.a", ("trade", "identity", origin), "get_trade does not return the order's trade")
            if b.has_trade(o.trade) is not True:
                self.v("C15.a", ("trade", "missing", origin), "has_trade false for a placed order's trade")
            # the by-trade view (named in the statement; held in Blotter._trades - read defensively)
            by_trade = getattr(b, "_trades", None)
            if by_trade is not None:
                once("trade", by_trade.get(o.trade, []), o, origin)
            else:
                self.c("by_trade_view_not_evaluated")
            if origin == "replacement":
                self.c("replacement_orders_seen")
                if o.bet_id is not None and b.get_order_bet_id(o.bet_id) is not o:
                    self.v("C15.a", ("bet_id", "identity", origin), "get_order_bet_id does not return the replacement order")
            # c) lookups return the identical object
            self.c("clause:C15.c")
            if w.framework.markets.get_order(market.market_id, o.id) is not o:
                self.v("C15.c", ("get_order", "identity", origin), "markets.get_order returns a different object")
            if origin == "replacement" and o.bet_id is not None and w.framework.markets.get_order_from_bet_id(market.market_id, o.bet_id) is not o:
                self.v("C15.c", ("get_order_from_bet_id", "identity", origin), "markets.get_order_from_bet_id returns a different object")
        # b) live list contains every order that is not complete; leaves only after being complete
        self.c("clause:C15.b")
        live = list(b.live_orders)
        for o in orders:
            inl = any(x is o for x in live)
            if not o.complete and not inl:
                self.v("C15.b", ("live_orders", "missing", sname(o.status)), "order not complete (%s) is not in the live list" % sname(o.status))
        for x in live:
            if not any(x is o for o in orders):
                self.v("C15.b", ("live_orders", "extra", "-"), "live list holds an order that is not in the blotter")
        if len({id(x) for x in live}) != len(live):
            self.v("C15.b", ("live_orders", "duplicate", "-"), "order twice in the live list")
        # d) filters
        self.c("clause:C15.d")
        from flumine.order.order import OrderStatus

        for st in w.strategies:
            base = b.strategy_orders(st)
            for flt in ([OrderStatus.EXECUTABLE], [OrderStatus.EXECUTION_COMPLETE], [OrderStatus.PENDING, OrderStatus.CANCELLING]):
                got = b.strategy_orders(st, order_status=flt)
                exp = [o for o in base if o.status in flt]
                if [id(x) for x in got] != [id(x) for x in exp]:
                    self.v("C15.d", ("strategy_orders", "status-filter", "-"), "status filter %s returned %d orders, expected %d" % ([f.name for f in flt], len(got), len(exp)))
            got = b.strategy_orders(st, matched_only=True)
            exp = [o for o in base if o.size_matched > 0]
            if [id(x) for x in got] != [id(x) for x in exp]:
                self.v("C15.d", ("strategy_orders", "matched-only", "-"), "matched_only returned %d orders, expected %d" % (len(got), len(exp)))
            # every view x every (status filter, matched-only in {None, False, True}) combination against a plain scan
            views = [("strategy_orders", lambda **kw: b.strategy_orders(st, **kw), lambda o: True)]
            for sel in (1, 2):
                views.append(("strategy_selection_orders", lambda sel=sel, **kw: b.strategy_selection_orders(st, sel, 0, **kw), lambda o, sel=sel: o.selection_id == sel and o.handicap == 0))
            for cl in getattr(w, "clients", []):
                views.append(("client_orders", lambda cl=cl, **kw: b.client_orders(cl, **kw), None))
                views.append(("client_strategy_orders", lambda cl=cl, **kw: b.client_strategy_orders(cl, st, **kw), lambda o, cl=cl: o.client is cl))
            every = list(b)
            for vname, call, pred in views:
                if vname == "client_orders":
                    scope = [o for o in every if o.client is call.__defaults__[0]]
                else:
                    scope = [o for o in base if pred(o)]
                for flt in (None, [OrderStatus.EXECUTABLE], [OrderStatus.EXECUTION_COMPLETE, OrderStatus.PENDING]):
                    for mo in (None, False, True):
                        kw = {}
                        if flt is not None:
                            kw["order_status"] = flt
                        if mo is not None:
                            kw["matched_only"] = mo
                        try:
                            got = call(**kw)
                        except Exception as e:  # noqa
                            self.v("C15.d", (vname, "exception", "-"), "%s(%s) raised %r" % (vname, kw, e))
                            continue
                        exp = [o for o in scope if (flt is None or o.status in flt) and (not mo or o.size_matched > 0)]
                        if sorted(id(x) for x in got) != sorted(id(x) for x in exp):
                            self.v("C15.d", (vname, "filter-combination", "-"), "%s(status=%s, matched_only=%r) returned %d orders, a plain scan gives %d" % (vname, flt and [f.name for f in flt], mo, len(got), len(exp)))
            for sel in (1, 2):
                got = b.strategy_selection_orders(st, sel, 0, order_status=[OrderStatus.EXECUTABLE], matched_only=True)
                exp = [o for o in base if o.selection_id == sel and o.handicap == 0 and o.status == OrderStatus.EXECUTABLE and o.size_matched > 0]
                if [id(x) for x in got] != [id(x) for x in exp]:
                    self.v("C15.d", ("strategy_selection_orders", "filter", "-"), "selection filter returned %d, expected %d" % (len(got), len(exp)))


def _now():
    from flumine import config

    return config.current_time


def _placed(st):
    """(log entry, order) pairs of placement actions in creation order."""
    creations = [e for e in st.log if e[2][0] == "P" and e[3] != "notrade"]
    return list(zip(creations, getattr(st, "_created", [])))


def _is_replacement(w, o):
    for st in w.strategies:
        if hasattr(st, "_created") and any(o is x for x in st._created):
            return False
    return True


def _viol_control(o):
    m = o.violation_msg or ""
    if "violated:" in m:
        return m.split("violated:")[1].split()[0]
    return "-"


def _hsize(hist):
    return sum(1 + len(t[2]) + (0 if t[1][0] == "Q" else 1) for t in hist) * 1000 + len(str(hist))


def _evkinds(hist, upd):
    """kind of the market event delivered by update `upd` (update i carries history tick i-1's event)."""
    i = upd - 1
    if 0 <= i < len(hist):
        return hist[i][1][0]
    return "-"


# --------------------------------------------------------------------------------------
# running one history


def run_history(hist, enabled, cfg=None):
    cfg = cfg or {}
    ns = cfg.get("n_strategies", 1)
    ticks, scripts = split_history(hist, ns)
    spec = simx.MarketSpec(
        book0=cfg.get("book0", BOOK0),
        bet_delay=cfg.get("bet_delay", 0),
        persistence=cfg.get("persistence", True),
        market_type=cfg.get("market_type", "WIN"),
        sels=cfg.get("sels", ((1, 0), (2, 0))),
    )
    life = Life(enabled, hist, extra={"cfg": cfg})
    skw = dict(max_order_exposure=None, max_selection_exposure=None, max_live_trade_count=cfg.get("max_live", 3))
    skw.update(cfg.get("strategy_kw") or {})
    life.skw = skw
    _install_created_tracking()
    nc = cfg.get("n_clients", 1)
    strategies = [dict(script=scripts[k], kw=dict(skw), client=(k % nc), name="S%d" % k) for k in range(ns)]
    w = simx.SimWorld(
        [(spec, ticks)],
        strategies,
        hooks=life,
        cfg=cfg.get("config"),
        client_kw=cfg.get("client_kw"),
        n_clients=nc,
    )
    w.run()
    first = sorted(enabled)[0]
    if w.run_exception is not None:
        life.v(first + ".a", ("run", "exception", type(w.run_exception).__name__), "run raised %r\n%s" % (w.run_exception, getattr(w, "run_traceback", "")[-600:]))
    for st in w.strategies:
        for e in st.log:
            if isinstance(e[3], str) and e[3].startswith("raise!"):
                life.v(first + ".a", ("action", "unexpected-exception", e[3].split(":")[1]), "action %s raised %s" % (e[2], e[3]))
    outcome = core.stable_hash([[sname(o.status), round(o.size_matched, 2), round(o.size_remaining, 2)] for o in w.all_orders()] + [life.trans])
    return dict(canon=hash(life.canon) if life.canon is not None else None, violations=_dedup(life.viol), counts=life.counts, outcome=outcome)


def _dedup(vs, per_key=1):
    seen, out = {}, []
    for d in vs:
        k = tuple(d["key"])
        seen[k] = seen.get(k, 0) + 1
        if seen[k] <= per_key:
            out.append(d)
    return out


_CT = False


def _install_created_tracking():
    """Scripted.make_order records created orders in st._created (creation order)."""
    global _CT
    if _CT:
        return
    _CT = True
    Scripted, _ = simx.classes()
    orig = Scripted.make_order

    def make_order(self, market, t):
        o = orig(self, market, t)
        if not hasattr(self, "_created"):
            self._created = []
        if o is not None:
            self._created.append(o)
        return o

    Scripted.make_order = make_order
