"""C05 Fills never breach the order's limit; fill-or-kill is all-or-nothing — E3 (every book x
placement, executed by the real SimulatedExecution inside a real simulated run) + E1 (resting
leftovers continued with traded-volume sequences)."""
import itertools
from fractions import Fraction as F

from mc import core, simx

CLAUSES = {
    "C05.a": "every fill respects the limit (BACK >= limit, LAY <= limit; FOK: VWAP of its fills)",
    "C05.b": "never more taken from a price level than was available in the book the placement executed against",
    "C05.c": "FOK: matched is 0 or in [min_fill, size]; nothing remains after the response; complete at the next callback; min_fill > size fails",
    "C05.d": "best-price execution off and priced through the best price => no fill, whole size lapsed",
}

LADDER = (1.9, 2.0, 2.02, 2.1, 2.5)
LIMITS = (1.5, 1.9, 2.0, 2.02, 2.1, 2.5, 3.0)
SIZES_L = (1, 2, 5)
ORDER_SIZES = (2.0, 5.0)
TIFS = (("-", None), ("FOK", None), ("FOK", 1.0), ("FOK", "size"), ("FOK", "over"), ("FOK", 0.5))


LADDER_T = (1.9, 1.95, 2.0, 2.02, 2.1, 2.2, 2.5)


def books(max_levels, sizes, ladder=LADDER):
    out = []
    for k in range(0, max_levels + 1):
        for prices in itertools.combinations(ladder, k):
            for szs in itertools.product(sizes, repeat=k):
                out.append([[p, s] for p, s in zip(prices, szs)])
    return out


def _orders_menu():
    m = []
    for side in ("BACK", "LAY"):
        for lim in LIMITS:
            for size in ORDER_SIZES:
                for tif, mf in TIFS:
                    mfv = mf
                    if mf == "size":
                        mfv = size
                    elif mf == "over":
                        mfv = size + 1
                    m.append(dict(sel=1, side=side, price=lim, size=size, tif=None if tif == "-" else "FILL_OR_KILL", mf=mfv, pers="LAPSE"))
    return m


MENU = _orders_menu()


def _penny_menu():
    """orders against books whose levels are pennies wide: rounding of price x size must not decide a fill"""
    m = []
    for side in ("BACK", "LAY"):
        for lim in [round(1.6 + 0.1 * k, 1) for k in range(19)]:
            for size, mf in ((10.0, 0.02), (10.0, 0.01), (0.02, None), (10.0, None)):
                m.append(dict(sel=1, side=side, price=lim, size=size, tif="FILL_OR_KILL", mf=mf, pers="LAPSE"))
            m.append(dict(sel=1, side=side, price=lim, size=0.03, tif=None, mf=None, pers="LAPSE"))
    return m


MENU_PENNY = _penny_menu()
# the persistence type says what happens to a resting order at in-play / at the close: it has no say in matching
MENU_PERS = {"moc": [dict(t, pers="MARKET_ON_CLOSE") for t in MENU], "persist": [dict(t, pers="PERSIST") for t in MENU]}
PENNY_LADDER = (1.5, 2.0, 2.5, 3.0, 3.5)


class Hooks:
    def __init__(self):
        self.after_resp = {}  # id(order) -> (remaining, matched, status) right after the place response
        self.first_cb = {}
        self.viol = []
        self.ticks = []  # per update: (available to back, available to lay, matched so far per order) of runner (1, 0)

    def post_execute(self, w, package):
        for o in package._orders:
            self.after_resp.setdefault(id(o), (o.size_remaining, o.size_matched, o.status.name, o.simulated.size_cancelled, o.simulated.size_lapsed, [tuple(m[1:]) for m in o.simulated.matched]))

    def tick_end(self, w, market, mb):
        r = [x for x in mb.runners if (x.selection_id, x.handicap) == (1, 0)]
        if r:
            self.ticks.append(([(l["price"], l["size"]) for l in r[0].ex.available_to_back], [(l["price"], l["size"]) for l in r[0].ex.available_to_lay], {id(o): (o.size_matched, o.status.name) for o in market.blotter}))
        for o in market.blotter:
            if id(o) in self.after_resp and id(o) not in self.first_cb:
                self.first_cb[id(o)] = (o.status.name, o.complete)


def _sat(side, price, limit, tol=F(0)):
    price, limit = F(str(price)), F(str(limit))
    return price >= limit - tol if side == "BACK" else price <= limit + tol


def _one(args):
    levels, bpe, full_match, trades = args[:4]
    MENU = MENU_PENNY if (len(args) > 4 and args[4] == "penny") else globals()["MENU"]
    pers_mode = args[4] if len(args) > 4 and args[4] in MENU_PERS else None
    if pers_mode:
        MENU = MENU_PERS[pers_mode]
    # "avail": config.simulation_available_prices - resting orders are (also) filled from prices that become
    # available later; the limit and the order size bind there all the same (clause a, oversize)
    avail_mode = len(args) > 4 and args[4] == "avail"
    # decoy: the same selection id on another handicap line with a deep book at prices every order would take -
    # an order on (1, 0) must be matched against its own runner's book only
    book0 = {(1, 0): {"atb": levels, "atl": levels, "trd": [[2.0, 10]]}, (2, 0): {"atb": [[3.0, 5]], "atl": [[3.2, 5]]}, (1, 0.5): {"atb": [[3.5, 100]], "atl": [[1.2, 100]], "trd": [[2.0, 10]]}}
    spec = simx.MarketSpec(book0=book0, sels=((1, 0), (2, 0), (1, 0.5)))
    # "arrival": the first trading update is the very update in which the placements take effect
    arrival = len(args) > 4 and args[4] == "arrival"
    ticks = ([] if arrival else [[200, ["Q"]]]) + [[200, ev] for ev in trades]
    # one batch with an explicit execute() half-way: nothing reaches the matching engine twice
    acts = [["TX", [["P", dict(t)] for t in MENU], [len(MENU) // 2]]]
    h = Hooks()
    w = simx.SimWorld(
        [(spec, ticks)],
        [dict(script={(0, 0): acts}, kw=dict(max_order_exposure=None, max_selection_exposure=None, max_live_trade_count=10**6))],
        hooks=h,
        cfg=dict(simulation_available_prices=True) if avail_mode else None,
        client_kw=dict(best_price_execution=bpe, simulated_full_match=full_match, min_bet_validation=(MENU is not MENU_PENNY)),
    ).run()
    out = []
    counts = {"clause:C05.a": 0, "clause:C05.b": 0, "clause:C05.c": 0, "clause:C05.d": 0, "crossed_2_levels": 0, "fok_filled": 0, "fok_killed": 0, "bpe_lapsed": 0, "rested": 0, "passive_fills": 0}
    if w.run_exception is not None:
        out.append(core.v("C05.a", ("-", "-", bpe, "exception"), "run raised %r" % (w.run_exception,), dict(levels=levels, bpe=bpe, full_match=full_match, trades=trades)))
        return dict(violations=out, counts=counts, outcome=None)
    st = w.strategies[0]
    avail = {}
    for p, s in levels:
        avail[p] = avail.get(p, 0) + s
    best_back = max(avail) if avail else None
    best_lay = min(avail) if avail else None
    sig = []
    case = dict(levels=levels, bpe=bpe, full_match=full_match, trades=trades, menu="penny" if MENU is MENU_PENNY else ("avail" if avail_mode else ("arrival" if arrival else (pers_mode or "std"))))
    for t, o in zip(MENU, st.known):
        side, lim, size = t["side"], t["price"], t["size"]
        fok = t["tif"] == "FILL_OR_KILL"
        mf = t["mf"] if t["mf"] is not None else size
        tifk = "FOK" if fok else "GTC"
        resp = h.after_resp.get(id(o))
        if resp is None:
            out.append(core.v("C05.c", (side, tifk, bpe, "not-executed"), "order %r never reached the execution" % t, dict(case, order=t)))
            continue
        rem, matched, status, canc, lapsed, frags_at_resp = resp
        key = lambda pred: (side, tifk, bpe, pred)
        # a) limit respected at placement
        counts["clause:C05.a"] += 1
        if fok:
            if frags_at_resp:
                tot = sum(F(str(s)) for _, s in frags_at_resp)
                vw = sum(F(str(p)) * F(str(s)) for p, s in frags_at_resp) / tot
                if not _sat(side, vw, lim, F(5, 1000)):
                    out.append(core.v("C05.a", key("vwap"), "FOK %s limit %s filled %s (vwap %.4f)" % (side, lim, frags_at_resp, float(vw)), dict(case, order=t)))
        else:
            for p, s in frags_at_resp:
                if not _sat(side, p, lim):
                    out.append(core.v("C05.a", key("limit"), "%s limit %s filled at %s x %s" % (side, lim, p, s), dict(case, order=t)))
                    break
        # b) level availability (not under simulated_full_match)
        if not full_match:
            counts["clause:C05.b"] += 1
            per = {}
            for p, s in frags_at_resp:
                per[p] = per.get(p, 0) + s
            for p, s in per.items():
                if s > avail.get(p, 0) + 1e-9:
                    out.append(core.v("C05.b", key("level availability"), "%s limit %s took %s at %s, available %s" % (side, lim, s, p, avail.get(p, 0)), dict(case, order=t)))
                    break
            if sum(per.values()) > size + 1e-9:
                out.append(core.v("C05.b", key("oversize"), "%s size %s matched %s" % (side, size, sum(per.values())), dict(case, order=t)))
            if len(per) >= 2:
                counts["crossed_2_levels"] += 1
        # d) BPE off and priced through the best price
        best = best_back if side == "BACK" else best_lay
        through = best is not None and (best > lim if side == "BACK" else best < lim)
        invalid_mf = fok and mf > size
        if not bpe and through and not invalid_mf:
            counts["clause:C05.d"] += 1
            counts["bpe_lapsed"] += 1
            if frags_at_resp or abs(lapsed - size) > 1e-9 or rem != 0:
                out.append(core.v("C05.d", key("bpe"), "BPE off, %s limit %s through best %s: fills %s lapsed %s remaining %s" % (side, lim, best, frags_at_resp, lapsed, rem), dict(case, order=t)))
            continue
        # c) fill-or-kill
        if fok:
            counts["clause:C05.c"] += 1
            if invalid_mf:
                if matched != 0 or frags_at_resp or rem != 0:
                    out.append(core.v("C05.c", key("min-fill>size"), "min_fill %s > size %s but matched %s remaining %s" % (mf, size, matched, rem), dict(case, order=t)))
            else:
                if not full_match and not (matched == 0 or (mf - 1e-9 <= matched <= size + 1e-9)):
                    out.append(core.v("C05.c", key("min-fill"), "FOK %s size %s min_fill %s matched %s" % (side, size, mf, matched), dict(case, order=t)))
                if rem != 0:
                    out.append(core.v("C05.c", key("rests"), "FOK %s limit %s has %s remaining after the response" % (side, lim, rem), dict(case, order=t)))
                counts["fok_filled" if matched else "fok_killed"] += 1
            fc = h.first_cb.get(id(o))
            if fc is None or fc[0] != "EXECUTION_COMPLETE" or not fc[1]:
                out.append(core.v("C05.c", key("not-complete"), "FOK order %r is %r at the first callback after its response" % (t, fc), dict(case, order=t)))
            # never rests: no later fragment
            if len(o.simulated.matched) != len(frags_at_resp):
                out.append(core.v("C05.c", key("late-fill"), "FOK order filled after its response: %s" % (o.simulated.matched,), dict(case, order=t)))
        else:
            if rem > 0:
                counts["rested"] += 1
            # resting continuation: every later fragment still respects the limit and the size
            later = o.simulated.matched[len(frags_at_resp) :]
            if later and avail_mode:
                counts["available_price_fills"] = counts.get("available_price_fills", 0) + 1
                # per update: no more than what that update's book offers at prices satisfying the limit, plus
                # (half of) what traded there - nothing trades in these histories
                counts["clause:C05.b"] += 1
                prev_m = None
                for atb_, atl_, ms in h.ticks:
                    cur, st_ = ms.get(id(o), (None, None))
                    if cur is None or st_ == "PENDING":
                        continue  # the update in which the placement itself executes is not judged here (clause b above)
                    if prev_m is not None and cur > prev_m + 1e-9:
                        lad = atb_ if side == "BACK" else atl_
                        cap_u = sum(z for p_, z in lad if _sat(side, p_, lim))
                        if cur - prev_m > cap_u + 1e-9:
                            out.append(core.v("C05.b", key("available-price level availability"), "%s limit %s took %s in one update, the book offered %s at its price or better (%s)" % (side, lim, round(cur - prev_m, 2), cap_u, lad), dict(case, order=t)))
                            break
                    prev_m = cur
            elif later:
                counts["passive_fills"] += 1
                # a resting order cannot take more than (half of) what traded at prices satisfying its limit
                cap = 0.0
                for ev in trades:
                    if ev[0] != "T":
                        continue  # a ladder-only update: the traded volume is unchanged
                    for p_, v_ in ev[2]:
                        if _sat(side, p_, lim):
                            cap += v_ / 2.0
                got_passive = sum(z for _, _, z in later)
                counts["clause:C05.b"] += 1
                if got_passive > cap + 1e-9:
                    out.append(core.v("C05.b", key("traded availability"), "%s limit %s took %s passively, only %s traded at its price or better (halved)" % (side, lim, got_passive, cap), dict(case, order=t)))
            for _, p, s in later:
                if not _sat(side, p, lim):
                    out.append(core.v("C05.a", key("limit-resting"), "%s limit %s passive fill at %s" % (side, lim, p), dict(case, order=t)))
                    break
            if o.size_matched > size + 1e-9 or o.size_remaining < -1e-9:
                out.append(core.v("C05.b", key("oversize-resting"), "%s size %s matched %s remaining %s" % (side, size, o.size_matched, o.size_remaining), dict(case, order=t)))
        sig.append((side, lim, size, tifk, str(t["mf"]), round(matched, 2), round(lapsed, 2), round(o.size_matched, 2)))
    return dict(violations=_dedup(out), counts=counts, outcome=core.stable_hash(sig))


def _two_clients(args):
    """two clients whose best-price-execution settings differ; an order of the strategy's client is replaced 1-3 times
    (resting at first), the last replacement priced through / at / behind the best price: the setting of the client
    the order was placed through decides, for every generation of the replacement chain."""
    bpes, ci, side, gens, last = args
    best = 3.0 if side == "BACK" else 3.2
    rest = [4.0, 3.5, 3.8] if side == "BACK" else [2.0, 2.5, 2.2]
    final = {"through": 2.5 if side == "BACK" else 4.0, "at": best, "behind": 3.6 if side == "BACK" else 2.6}[last]
    script = {(0, 0): [["P", dict(sel=1, side=side, price=rest[0], size=2.0)]]}
    for g in range(gens):
        script[(0, 1 + g)] = [["R", g, final if g == gens - 1 else rest[g + 1]]]
    spec = simx.MarketSpec(book0={(1, 0): {"atb": [[3.0, 5], [2.8, 5]], "atl": [[3.2, 5], [3.4, 5]]}, (2, 0): {"atb": [[3.0, 5]], "atl": [[3.2, 5]]}})
    w = simx.SimWorld(
        [(spec, [[1000, ["Q"]] for _ in range(gens + 2)])],
        [dict(script=script, client=ci, kw=dict(max_order_exposure=None, max_selection_exposure=None, max_live_trade_count=10**6))],
        n_clients=2,
        client_kw={0: dict(best_price_execution=bpes[0]), 1: dict(best_price_execution=bpes[1])},
    ).run()
    out = []
    counts = {"clause:C05.d": 1, "clause:C05.a": 1, "replacement_chains": 1, "chain_lapsed": 0, "chain_filled": 0}
    case = dict(two_clients=[list(bpes), ci, side, gens, last])
    bpe = bpes[ci]
    key = lambda pred: (side, "GTC", bpe, pred)
    if w.run_exception is not None:
        out.append(core.v("C05.a", key("exception"), "run raised %r" % (w.run_exception,), case))
        return dict(violations=out, counts=counts, outcome=None)
    st = w.strategies[0]
    lapse_expected = last == "through" and not bpe
    all_orders = list(w.all_orders())
    if lapse_expected:
        # the refused replacement is not kept (its placement failed with the lapse error): nothing anywhere is filled
        counts["chain_lapsed"] += 1
        filled = [(x.order_type.price, [tuple(m[1:]) for m in x.simulated.matched]) for x in all_orders if x.simulated.matched]
        if filled or len(all_orders) > gens + 1:
            out.append(core.v("C05.d", key("bpe-replacement"), "BPE off for the order's client (the other client: %s), replacement %d of a %s order priced %s through best %s: %d orders, fills %s" % (bpes[1 - ci], gens, side, final, best, len(all_orders), filled), case))
        return dict(violations=out, counts=counts, outcome=None)
    if len(st.known) != gens + 1:
        out.append(core.v("C05.d", key("chain"), "%d orders after %d replacements: %s" % (len(st.known), gens, [e[3] for e in st.log]), case))
        return dict(violations=out, counts=counts, outcome=None)
    o = st.known[-1]
    sm = o.simulated
    frags = [tuple(m[1:]) for m in sm.matched]
    if last in ("through", "at"):
        counts["chain_filled"] += 1
        if [tuple(f) for f in frags] != [(best, 2.0)] or sm.size_lapsed:
            out.append(core.v("C05.a", key("replacement-fill"), "BPE %s for the order's client, replacement %d of a %s order priced %s (%s best %s): fills %s lapsed %s" % (bpe, gens, side, final, last, best, frags, sm.size_lapsed), case))
    else:
        if frags or sm.size_lapsed:
            out.append(core.v("C05.a", key("replacement-behind"), "replacement %d of a %s order priced %s behind best %s: fills %s lapsed %s" % (gens, side, final, best, frags, sm.size_lapsed), case))
    for p_, s_ in frags:
        if not _sat(side, p_, final):
            out.append(core.v("C05.a", key("limit"), "%s limit %s filled at %s" % (side, final, p_), case))
    return dict(violations=out, counts=counts, outcome=None)


def _dedup(vs, per_key=2):
    seen, out = {}, []
    for d in vs:
        k = tuple(d["key"])
        seen[k] = seen.get(k, 0) + 1
        if seen[k] <= per_key:
            out.append(d)
    return out


TRADES = (["T", 1, [[1.9, 8]]], ["T", 1, [[2.0, 8]]], ["T", 1, [[2.1, 8]]], ["T", 1, [[2.5, 4], [1.9, 4]]], ["T", 1, []], ["B", 1, "atl", [[2.6, 3]]])


AVAIL_EVENTS = tuple(["B", 1, side, lv] for side in ("atb", "atl") for lv in ([[2.1, 1], [2.0, 5]], [[2.5, 2], [1.9, 5]], [[2.02, 1], [2.0, 1], [1.9, 9]], [[3.0, 1], [2.5, 1], [2.1, 9]]))


def run(tier):
    rep = core.Report("C05", tier, "E3 gridx + E1 simx")
    if tier == "thorough":
        bks = books(4, SIZES_L, LADDER_T) + [b for b in books(5, (1, 5)) if len(b) == 5]
        tlen = 3
    else:
        bks = books(3, SIZES_L)
        tlen = 2
    jobs = []
    for lv in bks:
        for bpe in (True, False):
            jobs.append((lv, bpe, False, []))
    # simulated_full_match: clauses a and c only
    for lv in books(2, (1, 5)):
        jobs.append((lv, True, True, []))
    # resting continuation: a small set of books x all trade sequences
    rest_books = [[], [[2.0, 1]], [[2.1, 2], [2.0, 1]], [[2.5, 1], [1.9, 5]]]
    for lv in rest_books:
        for n in range(1, tlen + 1):
            for seq in itertools.product(TRADES, repeat=n):
                jobs.append((lv, True, False, [list(e) for e in seq]))
    # volume trades in the very update in which the orders arrive (a killed fill-or-kill order takes none of it)
    for lv in rest_books:
        for n in range(1, tlen + 1):
            for seq in itertools.product(TRADES[:4], repeat=n):
                jobs.append((lv, True, False, [list(e) for e in seq], "arrival"))
    # resting orders with simulation_available_prices: later books bring prices at / through / behind the limits
    for lv in ([], [[2.0, 1]]):
        for n in range(1, tlen + 1):
            for seq in itertools.product(AVAIL_EVENTS, repeat=n):
                jobs.append((lv, True, False, [list(e) for e in seq], "avail"))
    # the other persistence types (they decide nothing here): small books x BPE, and the resting continuation
    for pm in sorted(MENU_PERS):
        for lv in books(2, SIZES_L):
            for bpe in (True, False):
                jobs.append((lv, bpe, False, [], pm))
        for lv in rest_books[1:3]:
            for seq in itertools.product(TRADES, repeat=1):
                jobs.append((lv, True, False, [list(e) for e in seq], pm))
    # penny-wide levels (optionally in front of a deep level at the worst price)
    for lv in books(3, (0.01, 0.02), PENNY_LADDER):
        for deep in (None, 50):
            if deep and lv:
                worst_b = min(p for p, _ in lv)
                jobs.append((lv + [[round(worst_b - 0.1, 2), deep]], True, False, [], "penny"))
            jobs.append((lv, True, False, [], "penny"))
    placements = 0
    for r in core.pmap(_one, jobs):
        rep.add_violations(r["violations"])
        rep.merge_counts(r["counts"])
        placements += len(MENU)
        if r["outcome"]:
            rep.outcomes.add(r["outcome"])
    tc = [(b, ci, side, g, last) for b in ((True, False), (False, True), (False, False), (True, True)) for ci in (0, 1) for side in ("BACK", "LAY") for g in (1, 2, 3) for last in ("through", "at", "behind")]
    for r in core.pmap(_two_clients, tc):
        rep.add_violations(r["violations"])
        rep.merge_counts(r["counts"])
    rep.need("replacement_chains", "chain_lapsed", "chain_filled")
    rep.need("crossed_2_levels", "fok_filled", "fok_killed", "bpe_lapsed", "rested", "passive_fills", "available_price_fills")
    rep.sample({"book_levels": bks[200], "bpe": True, "orders": MENU[:3]})
    rep.sample({"book_levels": jobs[-1][0], "trades": jobs[-1][3]})
    rep.states = len(jobs)
    rep.transitions = placements
    rep.traces = len(jobs)
    rep.evaluations = placements
    rep.nontrivial = len(rep.outcomes)
    rep.rule = (
        "every book of 0-3 levels over ladder prices %s with level sizes %s (thorough: plus all 4-level books with sizes 1/5) x best-price-"
        "execution on/off; against each, every (side x limit in %s x size in %s x TIF/min-fill in %s) placed in one real run and executed by "
        "the real SimulatedExecution; resting leftovers continued with every traded-volume sequence of length <= %d; distinct_nontrivial = "
        "distinct outcome vectors" % (LADDER, SIZES_L, LIMITS, ORDER_SIZES, [t for t in TIFS], tlen)
    )
    rep.bounds = dict(books=len(bks), orders_per_book=len(MENU), runs=len(jobs), trade_seq_len=tlen)
    rep.assumptions = [
        "FOK VWAP compared with a 0.005 price tolerance (flumine rounds the VWAP to pennies)",
        "under-filling relative to a maximal matcher is not a violation (statement does not require maximal fills)",
        "simulated_full_match runs are excluded from clause b and from the min-fill bound, as the statement says",
    ]
    return rep.finish()


def replay(rep):
    c = rep["case"]
    if "two_clients" in c:
        a = c["two_clients"]
        r = _two_clients((tuple(a[0]), a[1], a[2], a[3], a[4]))
        for d in r["violations"]:
            print(d["key"], d["detail"])
        return 1 if r["violations"] else 0
    r = _one((c["levels"], c["bpe"], c["full_match"], c["trades"], c.get("menu", "std")))
    for d in r["violations"]:
        print(d["key"], d["detail"])
    return 1 if r["violations"] else 0
