"""C11 Order-stream reconciliation converges on the exchange's view — E2 livex.
All interleavings (handler granularity) of strategy requests, request send / response apply,
exchange-side fills / lapses, order-stream snapshots (FIFO, duplicated), response faults (deviation
bound 1) and a crash/restart at every point, for small scripts; oracle at every quiescent state."""
import itertools

from mc import core, livex

CLAUSES = {
    "C11.a": "at quiescence every local order agrees with the exchange on bet id, sizes and completeness",
    "C11.b": "complete orders have left the live list, their trades are complete and the runner slot is freed",
    "C11.c": "every exchange bet of a known strategy is represented by exactly one local order in the right market and strategy (adoption exactly once; replaced bets: both)",
    "C11.d": "after a restart the adopted orders count towards exposure and live-trade accounting as before the crash",
    "C11.e": "updates for unknown strategies are ignored without effect",
}

A = dict(sel=1, side="BACK", price=2.2, size=5.0)
B = dict(sel=2, side="LAY", price=3.0, size=4.0)
SCRIPTS = {
    "place": [(0, ["P", A])],
    "place-cancel": [(0, ["P", A]), (0, ["C", 0, None])],
    "place-cancelpart": [(0, ["P", A]), (0, ["C", 0, 2.0])],
    "place-update": [(0, ["P", A]), (0, ["U", 0, "PERSIST"])],
    "place-replace": [(0, ["P", A]), (0, ["R", 0, 2.4])],
    "place2-cancel2": [(0, ["PP", [A, B]]), (0, ["CC", [[0], [1]]])],
    "place-cancel-cancel": [(0, ["P", A]), (0, ["C", 0, 2.0]), (0, ["C", 0, None])],
    "two-strategies": [(0, ["P", A]), (1, ["P", B]), (0, ["C", 0, None])],
    "place-sp": [(0, ["P", dict(sel=1, side="LAY", ot="LOC", liab=10.0, price=3.0)]), (0, ["P", dict(sel=2, side="BACK", ot="MOC", liab=4.0)])],
    "place-handicap": [(0, ["P", dict(A, hc=-1.5)]), (0, ["C", 0, 2.0])],
    "place-replace-cancel": [(0, ["P", A]), (0, ["R", 0, 2.4]), (0, ["C", 1, None])],  # the replacement order is cancelled
    # a line market (the script's name decides the market's ladder): a lay that can match, then a back
    "place-line": [(0, ["P", dict(sel=1, side="LAY", price=3.5, size=4.0)]), (0, ["P", dict(sel=1, side="BACK", price=2.5, size=2.0)])],
}


def _line_markets(script_name):
    return ("1.100000001",) if script_name.endswith("-line") else ()


class Obs:
    """records the order of the last response vs last snapshot, pre-crash accounting"""

    def __init__(self):
        self.seq = []
        self.pre_crash = None
        self.completed_by = {}  # id(order) -> flumine call site of the transition that completed it
        self.ec_at_crash = set()

    def status(self, w, o, prev, new, site):
        if o.complete and id(o) not in self.completed_by:
            self.completed_by[id(o)] = "by-snapshot" if "process_current_order" in site else "by-reply"

    def after_event(self, w, ev):
        if ev[0] in ("X_apply", "D", "Dd"):
            self.seq.append(ev[0])

    def before_crash(self, w):
        self.pre_crash = accounting(w)
        self.ec_at_crash = {b.bet_id for b in w.exchange.bets.values() if b.status == "EC"}


def accounting(w):
    """per (strategy name, market, selection): exposures and live trade count, per-order view"""
    out = {}
    fw = w.framework
    for st in fw.strategies:
        for m in fw.markets:
            sels = sorted({(o.selection_id, o.handicap) for o in m.blotter.strategy_orders(st)})
            for sel, hc in sels:
                ex = m.blotter.get_exposures(st, (m.market_id, sel, hc))
                rc = st.get_runner_context(m.market_id, sel, hc)
                bets = sorted(o.bet_id for o in m.blotter.strategy_selection_orders(st, sel, hc) if o.bet_id)
                out[(st.name, m.market_id, sel, hc)] = dict(
                    win=round(ex["worst_possible_profit_on_win"], 2),
                    lose=round(ex["worst_possible_profit_on_lose"], 2),
                    sel_exposure=round(m.blotter.selection_exposure(st, (m.market_id, sel, hc)), 2),
                    live=rc.live_trade_count,
                    bets=bets,
                    sizes=sorted((o.bet_id, round(o.size_matched, 2), round(o.size_remaining or 0, 2)) for o in m.blotter.strategy_selection_orders(st, sel, hc) if o.bet_id),
                )
    return out


def oracle(w, obs, meta, out, counts):
    from flumine.events import events
    from flumine.utils import STRATEGY_NAME_HASH_LENGTH

    # the order stream's output thread sends an empty snapshot every streaming_timeout while live
    # orders exist: deliver one, as the real thread would, before judging
    # (through the real output loop, which decides itself whether anything is sent)
    w.deliver(None)
    ex = w.exchange
    fw = w.framework
    hashes = {s.name_hash: s for s in fw.strategies}
    last_flag = "snapshot-last" if (obs.seq and obs.seq[-1] in ("D", "Dd")) else ("response-last" if obs.seq else "-")
    crash = "crash" if w.generation else "nocrash"
    base = (meta["script"], meta.get("fault", "none"), last_flag, crash)
    case = dict(meta=meta, path=[list(e) for e in w.trace])
    size = len(w.trace) * 100 + len(str(meta))

    def v(clause, field, detail):
        out.append(core.v(clause, base + (field,), detail, case, size=size))

    if w.market_identity:
        who, mid_, same, book = w.market_identity[0]
        v("C11.c", "market-identity", "strategy %s was handed a market object for %s that is %s the framework's registered market (book attached: %s): its adopted orders are invisible to it" % (who, mid_, "" if same else "NOT", book))
    local = []
    for m in fw.markets:
        for o in m.blotter:
            local.append((m, o))
    by_bet = {}
    for m, o in local:
        if o.bet_id is not None:
            by_bet.setdefault(str(o.bet_id), []).append((m, o))
    # a fresh subscription after a restart only carries the bets that were executable then
    in_image = lambda b: not (w.generation and b.bet_id in obs.ec_at_crash)
    known_bets = [b for b in ex.bets.values() if b.ref and b.ref[:STRATEGY_NAME_HASH_LENGTH] in hashes and in_image(b)]
    unknown_bets = [b for b in ex.bets.values() if not (b.ref and b.ref[:STRATEGY_NAME_HASH_LENGTH] in hashes)]
    # c) representation
    for b in known_bets:
        counts["clause:C11.c"] += 1
        reps = by_bet.get(b.bet_id, [])
        replaced = sum(1 for x in ex.bets.values() if x.ref == b.ref) > 1
        if len(reps) != 1:
            # a bet whose placement response was lost (TIMEOUT) or that was found after a restart must still be picked up
            v("C11.c", "missing-local-order" if not reps else "duplicate-local-order", "bet %s (%s, sm=%s sr=%s%s) is represented by %d local orders" % (b.bet_id, b.status, b.sm, b.sr, ", replaced" if replaced else "", len(reps)))
            continue
        m, o = reps[0]
        if m.market_id != b.market_id or o.trade.strategy is not hashes[b.ref[:STRATEGY_NAME_HASH_LENGTH]]:
            v("C11.c", "wrong-market-or-strategy", "bet %s adopted into market %s strategy %s" % (b.bet_id, m.market_id, o.trade.strategy.name))
        # a) agreement
        counts["clause:C11.a"] += 1
        if w.generation:
            counts["adopted_bets_checked"] += 1
        for fld, lv, bv in (("size_matched", o.size_matched, b.sm), ("size_remaining", o.size_remaining, b.sr), ("size_cancelled", o.size_cancelled, b.sc), ("size_lapsed", o.size_lapsed, b.sl)):
            if abs((lv or 0) - bv) > 1e-9:
                v("C11.a", fld, "bet %s: local %s=%s, exchange %s (local status %s, exchange %s)" % (b.bet_id, fld, lv, bv, o.status.name, b.status))
                break
        if o.complete != (b.status == "EC"):
            v("C11.a", "complete", "bet %s: local complete=%s status=%s, exchange status %s" % (b.bet_id, o.complete, o.status.name, b.status))
        elif o.status.name == "PENDING":
            # the order knows its bet (acknowledged by a reply or by the stream) and nothing is outstanding: it is
            # not "awaiting acknowledgement" any more (exposure skips PENDING orders)
            v("C11.a", "pending-with-bet-id", "bet %s (%s at the exchange): local order still PENDING at quiescence" % (b.bet_id, b.status))
    # a) local orders that claim a bet the exchange does not have / local live orders without a bet
    for m, o in local:
        if o.bet_id is not None and str(o.bet_id) not in ex.bets:
            v("C11.a", "phantom-bet", "local order has bet id %s unknown to the exchange" % o.bet_id)
        if o.bet_id is None and not o.complete:
            refs = [b for b in ex.bets.values() if b.ref == o.customer_order_ref]
            counts["clause:C11.a"] += 1
            if refs:  # the exchange holds a bet for this order but the order never learnt its bet id
                v("C11.a", "bet-id", "local order is %s without a bet id at quiescence; exchange has %d bet(s) for its reference" % (o.status.name, len(refs)))
    # b) completed orders released
    for m, o in local:
        if o.complete:
            counts["clause:C11.b"] += 1
            counts["completed_orders_checked"] += 1
            if any(x is o for x in m.blotter.live_orders):
                who = obs.completed_by.get(id(o), "by-reply")
                v("C11.b", "live-list/" + who, "complete order (bet %s, %s, completed %s) is still in the live list" % (o.bet_id, o.status.name, who))
    seen_t = set()
    for m, o in local:
        t = o.trade
        if id(t) in seen_t:
            continue
        seen_t.add(id(t))
        if t.orders and all(x.complete for x in t.orders) and not t.pending_orders:
            if any(x.status.name == "VIOLATION" for x in t.orders) and all(x.status.name == "VIOLATION" for x in t.orders):
                continue
            counts["clause:C11.b"] += 1
            rc = t.strategy.get_runner_context(t.market_id, t.selection_id, t.handicap)
            if t.status.name != "COMPLETE":
                v("C11.b", "trade-status", "all orders of the trade are complete but the trade is %s" % t.status.name)
            elif t.id in rc.live_trades:
                v("C11.b", "runner-slot", "trade complete but still counted as live on the runner")
    # b/d) runner accounting recounted from the orders: live trades = trades with an order not complete
    for st in fw.strategies:
        for m in fw.markets:
            by = {}
            for o in m.blotter.strategy_orders(st):
                by.setdefault((o.selection_id, o.handicap), []).append(o)
            for (sel, hc), os_ in by.items():
                rc = st.get_runner_context(m.market_id, sel, hc)
                live = {id(o.trade) for o in os_ if not o.complete}
                counts["clause:C11.b"] += 1
                # orders completed by a reply keep their trade's slot only through the known live-list finding; the
                # count itself must match the orders' state
                if rc.live_trade_count != len(live):
                    v("C11.d" if w.generation else "C11.b", "live_trade_count", "strategy %s runner %s: live_trade_count %d but %d trade(s) have an order not complete" % (st.name, sel, rc.live_trade_count, len(live)))
    # e) unknown strategies
    for b in unknown_bets:
        counts["clause:C11.e"] += 1
        counts["unknown_strategy_bets"] += 1
        if by_bet.get(b.bet_id):
            v("C11.e", "adopted-unknown", "bet %s of an unknown strategy was adopted" % b.bet_id)
    if w.handler_exceptions:
        v("C11.e" if unknown_bets else "C11.a", "exception", "handler raised: %s" % w.handler_exceptions[0][-300:])
    # d) restart accounting (single-order trades): compare with the pre-crash instance for the bets in the image
    if w.generation and obs.pre_crash is not None:
        post = accounting(w)
        for key, pre in obs.pre_crash.items():
            stname = key[0]
            if not any(s.name == stname for s in fw.strategies):
                continue
            counts["clause:C11.d"] += 1
            cur = post.get(key)
            # expected from the exchange table: bets of this strategy/runner present in the image
            bets_now = sorted(b.bet_id for b in known_bets if b.market_id == key[1] and b.sel == key[2] and (b.hc or 0) == (key[3] or 0) and hashes.get(b.ref[:STRATEGY_NAME_HASH_LENGTH]) is not None and hashes[b.ref[:STRATEGY_NAME_HASH_LENGTH]].name == stname and (meta["image"] == "all" or b.status == "E"))
            if not bets_now:
                continue
            if cur is None:
                v("C11.d", "accounting-missing", "no accounting for %s after restart" % (key,))
                continue
            exp_live = len([b for b in known_bets if b.bet_id in bets_now and b.status == "E"])
            if cur["live"] != exp_live:
                v("C11.d", "live_trade_count", "%s: live_trade_count %s after restart, %d executable bet(s) at the exchange" % (key, cur["live"], exp_live))
            # exposure: brute-force reference over the exchange's bets of this strategy/runner ...
            from mc import refs as R

            ros = [
                R.RefOrder(b.side, {"L": "LIMIT", "LOC": "LOC", "MOC": "MOC"}[b.ot], b.market_id in w.line_markets, "EXECUTABLE" if b.status == "E" else "EXECUTION_COMPLETE", b.status == "EC", [(b.avp, b.sm)] if b.sm else [], b.sr, b.price, b.liab)
                for b in known_bets
                if b.bet_id in bets_now
            ]
            ew, el = R.ref_selection(ros)
            if abs(cur["win"] - float(ew)) > 0.03 or abs(cur["lose"] - float(el)) > 0.03:
                v("C11.d", "exposure", "%s: exposure after restart %s/%s, exchange bets give %s/%s" % (key, cur["win"], cur["lose"], float(ew), float(el)))
            # ... and differential against the pre-crash instance when it knew exactly the same state of the same bets
            if sorted(pre["bets"]) == sorted(cur["bets"]) == bets_now and pre.get("sizes") == cur.get("sizes"):
                if (pre["win"], pre["lose"]) != (cur["win"], cur["lose"]):
                    v("C11.d", "exposure-differential", "%s: exposure before crash %s/%s, after restart %s/%s" % (key, pre["win"], pre["lose"], cur["win"], cur["lose"]))


def obs_inflight(obs):
    return False


def _job(args):
    name, budgets, fault, async_place, crash_image, skip = args
    script = SCRIPTS[name]
    meta = dict(script=name, fault=fault_name(fault), async_place=async_place, image=crash_image, budgets=budgets, skip=list(skip))
    out = []
    counts = {"clause:C11.a": 0, "clause:C11.b": 0, "clause:C11.c": 0, "clause:C11.d": 0, "clause:C11.e": 0, "quiescent_states": 0, "snapshot_inside_request_gap": 0, "adopted_bets_checked": 0, "completed_orders_checked": 0, "unknown_strategy_bets": 0, "crashes": 0, "response_after_last_snapshot": 0}
    outcomes = set()
    obs_holder = {}

    def mk():
        o = Obs()
        obs_holder["o"] = o
        b = dict(budgets)
        if crash_image:
            b["crash"] = 1
        w = livex.LiveWorld(script, hooks=o, budgets=b, fault_plan=fault, async_place=async_place, strategies=("S0", "S1"), skip_strategies=skip, line_markets=_line_markets(name))
        if crash_image and crash_image.endswith("-late"):
            w.crash_images = (crash_image,)
        w.start()
        return w

    def chk(w, path):
        # only one crash image variant per job
        if w.quiescent():
            o = obs_holder["o"]
            counts["quiescent_states"] += 1
            if w.generation:
                counts["crashes"] += 1
            if o.seq and o.seq[-1] == "X_apply":
                counts["response_after_last_snapshot"] += 1
            # snapshot landed between a send and its apply?
            tr = [e[0] for e in w.trace]
            for i, e in enumerate(tr):
                if e == "D" and "X_send" in tr[:i] and "X_apply" in tr[i:]:
                    counts["snapshot_inside_request_gap"] += 1
                    break
            n0 = len(out)
            oracle(w, o, meta, out, counts)
            sig = tuple(sorted((oo.status.name, oo.complete, round(oo.size_matched, 2)) for m in w.framework.markets for oo in m.blotter))
            outcomes.add((sig, len(out) > n0))

    def mk_filtered():
        return mk()

    st = livex.explore(mk, lambda w, p: chk(w, p) if (not crash_image or not any(e[0] == "CRASH" and e[1] != crash_image for e in p)) else None, max_depth=30, cap=60000)
    return dict(violations=_dedup(out), counts=counts, stats=st, outcomes=len(outcomes), meta=meta)


def fault_name(f):
    if not f:
        return "none"
    k, v = sorted(f.items())[0]
    return "call%d:%s" % (k, (v.get("per") or [v.get("transport")])[0])


def _dedup(vs, per_key=1):
    best = {}
    for d in vs:
        k = tuple(d["key"])
        if k not in best or len(d["case"]["path"]) < len(best[k]["case"]["path"]):
            best[k] = d
    return list(best.values())


def jobs_for(tier):
    thorough = tier == "thorough"
    jobs = []
    b1 = dict(fill=1, lapse=0, dup=0)
    b2 = dict(fill=1, lapse=1, dup=1)
    b3 = dict(fill=2, lapse=1, dup=1)
    for name in SCRIPTS:
        if name == "two-strategies" and not thorough:
            jobs.append((name, b1, None, False, None, ()))
            continue
        jobs.append((name, b2 if not thorough else b3, None, False, None, ()))
    # async placement
    for name in ("place", "place-cancel", "place-replace"):
        jobs.append((name, b2, None, True, None, ()))
    # response faults, deviation bound 1: the k-th API call is answered with a fault for its first instruction
    for name in ("place", "place-cancel", "place-cancelpart", "place-update", "place-replace", "place2-cancel2"):
        ncalls = len(SCRIPTS[name])
        for k in range(ncalls):
            for f in ("TIMEOUT", "TIMEOUT_APPLIED", "FAILURE:ERROR_IN_ORDER"):
                jobs.append((name, b1 if not thorough else b2, {k: {"per": [f]}}, False, None, ()))
    # crash / restart at every point (two image variants), one with a strategy that is not re-added
    for name in ("place", "place-cancel", "place-cancelpart", "place-replace", "two-strategies", "place-sp", "place-handicap", "place-line") + (("place-update", "place2-cancel2") if thorough else ()):
        jobs.append((name, b1, None, False, "executable", ()))
        jobs.append((name, b1, None, False, "executable", ("S1",) if name == "two-strategies" else ("S0",)))
        if name in ("place", "place-cancel", "two-strategies", "place-sp"):
            # the restarted instance sees the order-stream image before (or after) the first market books
            jobs.append((name, b1, None, False, "executable-late", ()))
    return jobs


def run(tier):
    rep = core.Report("C11", tier, "E2 livex")
    jobs = jobs_for(tier)
    for r in core.pmap(_job, jobs, chunk=1):
        rep.add_violations(r["violations"])
        rep.merge_counts(r["counts"])
        st = r["stats"]
        rep.states += st["states"]
        rep.transitions += st["transitions"]
        rep.traces += st["executions"]
        if st["capped"]:
            rep.caps_hit.append("%s: execution cap reached" % (r["meta"],))
        rep.per_level.append(dict(job=r["meta"], states=st["states"], executions=st["executions"], max_depth=st["max_depth"], quiescent=st["quiescent"]))
        rep.outcomes.update((r["meta"]["script"], i) for i in range(r["outcomes"]))
    rep.need("quiescent_states", "snapshot_inside_request_gap", "adopted_bets_checked", "completed_orders_checked", "unknown_strategy_bets", "crashes", "response_after_last_snapshot")
    rep.sample({"script": "place-cancel", "events": [["S"], ["X_send", 0], ["D"], ["X_apply", 0], ["S"], ["X_send", 1], ["EX_fill", "1001", "half"], ["D"], ["X_apply", 1], ["D"]]})
    rep.sample({"job": jobs[len(jobs) // 2][:2]})
    rep.bounds = dict(scripts=list(SCRIPTS), budgets=dict(fills=2 if tier == "thorough" else 1, lapses=1, duplicates=1, crash=1), fault_deviation_bound=1, jobs=len(jobs))
    rep.evaluations = sum(rep.clauses.values())
    rep.nontrivial = len(rep.outcomes)
    rep.rule = "depth-first exploration (canonical-state dedup, worlds rebuilt per path) of every interleaving of {next strategy request, request send, response apply, snapshot delivery (FIFO), duplicate of the last snapshot, exchange fill half/all, exchange lapse, async acceptance, crash+restart with image executable-only / all} for the scripts listed in bounds; faults: one call answered TIMEOUT (applied / not applied) or FAILURE; oracle at every quiescent state after the stream's periodic empty snapshot"
    rep.assumptions = [
        "exchange double implements the documented placeOrders/cancelOrders/updateOrders/replaceOrders semantics (Appendix B); a request is applied at the exchange when it is sent and answered later",
        "snapshots are full images of the market from a real betfairlightweight OrderBookCache, delivered FIFO (a TCP stream does not reorder), possibly repeated",
        "the order stream's output thread delivers an empty snapshot while live orders exist; one is delivered before judging a quiescent state",
        "restart accounting is compared for single-order trades (grouping of orders into trades is not recoverable from the exchange)",
    ]
    return rep.finish()


def replay(rep):
    c = rep["case"]
    m = c["meta"]
    fault = None
    if m["fault"] != "none":
        k, f = m["fault"].split(":", 1)
        fault = {int(k[4:]): {"per": [f]}}
    o = Obs()
    b = dict(m["budgets"])
    if m["image"]:
        b["crash"] = 1
    w = livex.LiveWorld(SCRIPTS[m["script"]], hooks=o, budgets=b, fault_plan=fault, async_place=m["async_place"], strategies=("S0", "S1"), skip_strategies=tuple(m["skip"]), line_markets=_line_markets(m["script"]))
    if m.get("image") and str(m["image"]).endswith("-late"):
        w.crash_images = (m["image"],)
    w.start()
    out = []
    counts = {k: 0 for k in ("clause:C11.a", "clause:C11.b", "clause:C11.c", "clause:C11.d", "clause:C11.e", "adopted_bets_checked", "completed_orders_checked", "unknown_strategy_bets")}
    try:
        for ev in c["path"]:
            w.do(tuple(ev))
            print(ev, [(oo.status.name, oo.bet_id, oo.size_matched, oo.size_remaining) for mm in w.framework.markets for oo in mm.blotter])
        oracle(w, o, m, out, counts)
    finally:
        w.stop()
    for d in out:
        print(d["key"], d["detail"])
    return 1 if out else 0
