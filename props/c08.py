"""C08 Settlement: simulated profit follows the exchange's rules — E3 gridx (profit formula on real
orders through the real Blotter.process_closed_market) + E1 simx (end-to-end through a real CLOSED
update, cleared events captured by the recording logging control)."""
import itertools
from fractions import Fraction as F

from mc import core, refs, simx

CLAUSES = {
    "C08.a": "order.profit equals the exchange settlement of its fills (win/lose/placed/removed, dead heat, each-way, line at evens)",
    "C08.b": "a BACK and a LAY with identical fills have exactly opposite profit",
    "C08.c": "cleared-market summary per client = sum over its matched orders; commission only on a net win",
}

PRICES = (1.01, 1.5, 2.0, 3.35, 10, 1000)
SIZES = (0.01, 2, 3.33)
MID = "1.100000001"


class _R:
    def __init__(self, sel, status, hc=0):
        self.selection_id = sel
        self.handicap = hc
        self.status = status


class _MD:
    def __init__(self, market_type, ew):
        self.market_type = market_type
        self.each_way_divisor = ew


class _Book:
    def __init__(self, runners, market_type, ew, nwin):
        self.runners = runners
        self.market_definition = _MD(market_type, ew)
        self.number_of_winners = nwin


class _Mkt:
    def __init__(self, ctx):
        self.context = ctx


# settle scenario = (label, market_type, nwin, ew, result of runner 1, other runners' results, line_result)
def scenarios():
    sc = []
    for dh in (1, 2, 3, 4):
        sc.append(("WIN/WINNER/dh%d" % dh, "WIN", 1, None, "WINNER", ["WINNER"] * (dh - 1) + ["LOSER"] * (4 - dh), None))
    sc.append(("WIN/LOSER", "WIN", 1, None, "LOSER", ["WINNER", "LOSER", "LOSER"], None))
    sc.append(("WIN/REMOVED", "WIN", 1, None, "REMOVED", ["WINNER", "LOSER", "LOSER"], None))
    sc.append(("WIN/ACTIVE", "WIN", 1, None, "ACTIVE", ["ACTIVE", "ACTIVE", "ACTIVE"], None))
    sc.append(("PLACE/WINNER", "PLACE", 2, None, "WINNER", ["WINNER", "LOSER", "LOSER"], None))
    sc.append(("PLACE/LOSER", "PLACE", 2, None, "LOSER", ["WINNER", "WINNER", "LOSER"], None))
    sc.append(("WIN0/WINNER", "WIN", 0, None, "WINNER", ["LOSER", "LOSER", "LOSER"], None))
    for d in (4, 5):
        for res in ("WINNER", "PLACED", "LOSER", "REMOVED"):
            sc.append(("EW%d/%s" % (d, res), "EACH_WAY", 1, d, res, ["LOSER", "PLACED", "LOSER"] if res == "WINNER" else ["WINNER", "PLACED", "LOSER"], None))
    return sc


def _mk(side, kind, frags, sel=1):
    from flumine import BaseStrategy
    from flumine.order.trade import Trade
    from flumine.order.ordertype import LimitOrder, LimitOnCloseOrder, MarketOnCloseOrder
    from betfairlightweight.resources.bettingresources import LineRangeInfo

    st = _G.setdefault("st", None) or _G.__setitem__("st", BaseStrategy(market_filter={"markets": []}, name="c08")) or _G["st"]
    tr = Trade(MID, sel, 0, st)
    if kind == "L":
        ot = LimitOrder(2.0, 10.0)
    elif kind == "LL":
        ot = LimitOrder(frags[0][0] if frags else 2.5, 10.0, price_ladder_definition="LINE_RANGE", line_range_info=LineRangeInfo(marketUnit="u", interval=1, minUnitValue=0.5, maxUnitValue=9.5))
    elif kind == "LOC":
        ot = LimitOnCloseOrder(10.0, 2.0)
    else:
        ot = MarketOnCloseOrder(10.0)
    o = tr.create_order(side, ot)
    for p, s in frags:
        o.simulated._update_matched([0, p, s])
    o.placing()
    o.executable()
    o.execution_complete()
    return o


_G = {}


def _tol(frags, ew):
    S = sum((F(str(s)) for _, s in frags), F(0))
    return F(5, 1000) * S * (1 + (F(1) / F(str(ew)) if ew else 0)) + F(5, 1000)


def _grid_chunk(args):
    frag_sets, scs = args
    from flumine.markets.blotter import Blotter

    out = []
    counts = {"clause:C08.a": 0, "clause:C08.b": 0}
    outcomes = set()
    with core.owned_config(simulated=True):
        for frags in frag_sets:
            for (label, mt, nwin, ew, res, others, lr) in scs:
                for kind in ("L", "LOC", "MOC"):
                    prof = {}
                    for side in ("BACK", "LAY"):
                        o = _mk(side, kind, frags)
                        b = Blotter(MID)
                        b[o.id] = o
                        # a second line of the same selection id (handicap 7.5) with another result is listed after
                        # the order's own runner: results are per (selection id, handicap)
                        decoy = _R(1, "LOSER" if res != "LOSER" else "ACTIVE", hc=7.5)
                        book = _Book([_R(1, res)] + [_R(i + 2, r) for i, r in enumerate(others)] + [decoy], mt, ew, nwin)
                        b.process_closed_market(_Mkt({}), book)
                        got = o.profit
                        prof[side] = got
                        nw = sum(1 for r in [res] + others if r == "WINNER")
                        dh = nw if (nwin and nw > nwin) else None
                        exp, kcase = refs.ref_settle(side, "LIMIT" if kind == "L" else kind, False, frags, res, mt, ew, dh, None)
                        counts["clause:C08.a"] += 1
                        outcomes.add((label, kind, side, got > 0, got < 0))
                        if exp is not None and abs(F(str(got)) - exp) > _tol(frags, ew):
                            out.append(
                                core.v(
                                    "C08.a",
                                    (mt, res, side, kind, "dh" if dh else "nodh"),
                                    "%s %s %s frags=%s: profit %s expected %s" % (label, kind, side, frags, got, float(exp)),
                                    dict(frags=frags, scenario=label, kind=kind, side=side),
                                    size=len(frags) * 50 + len(label),
                                )
                            )
                    counts["clause:C08.b"] += 1
                    if prof["BACK"] != -prof["LAY"]:
                        out.append(
                            core.v(
                                "C08.b",
                                (mt, res, "both", kind, "-"),
                                "%s %s frags=%s: BACK %s LAY %s" % (label, kind, frags, prof["BACK"], prof["LAY"]),
                                dict(frags=frags, scenario=label, kind=kind),
                                size=len(frags) * 50 + len(label),
                            )
                        )
    return dict(violations=_dedup(out), counts=counts, outcomes=sorted(outcomes))


def _line_cases():
    from flumine.markets.blotter import Blotter

    out = []
    counts = {"clause:C08.a": 0, "clause:C08.b": 0}
    n = 0
    with core.owned_config(simulated=True):
        for line in (0.5, 2.5, 3.0, 9.5):
            for sizes in [c for k in (0, 1, 2, 3) for c in itertools.combinations_with_replacement(SIZES, k)]:
                frags = [(line, s) for s in sizes]
                for lr in (None, line - 1, line - 0.5, line, line + 0.5, line + 1, 0):
                    prof = {}
                    for side in ("BACK", "LAY"):
                        o = _mk(side, "LL", frags)
                        b = Blotter(MID)
                        b[o.id] = o
                        book = _Book([_R(1, "WINNER"), _R(2, "LOSER")], "TOTAL_LINE", None, 1)
                        ctx = {} if lr is None else {"line_range_result": lr}
                        b.process_closed_market(_Mkt(ctx), book)
                        got = o.profit
                        prof[side] = got
                        n += 1
                        # a result of 0 is falsy in flumine's `if line_range_result:`: treated as "not provided"
                        eff = lr if lr else None
                        exp, kcase = refs.ref_settle(side, "LIMIT", True, frags, "WINNER", "TOTAL_LINE", None, None, eff)
                        counts["clause:C08.a"] += 1
                        if exp is not None and abs(F(str(got)) - exp) > _tol(frags, None):
                            out.append(core.v("C08.a", ("LINE", kcase, side, "LL", "-"), "line=%s result=%s sizes=%s %s: profit %s expected %s" % (line, lr, sizes, side, got, float(exp)), dict(line=line, result=lr, sizes=sizes, side=side)))
                    counts["clause:C08.b"] += 1
                    if prof["BACK"] != -prof["LAY"]:
                        rel = "equal" if lr == line else ("above" if lr is not None and lr > line else "below")
                        out.append(
                            core.v(
                                "C08.b",
                                ("LINE", "result-" + rel, "both", "LL", "-"),
                                "line=%s result=%s sizes=%s: BACK %s LAY %s" % (line, lr, sizes, prof["BACK"], prof["LAY"]),
                                dict(line=line, result=lr, sizes=sizes),
                                size=len(sizes),
                            )
                        )
    return dict(violations=_dedup(out), counts=counts, n=n)


def _dedup(vs, per_key=2):
    seen, out = {}, []
    for d in sorted(vs, key=lambda d: len(str(d["case"]))):
        k = tuple(d["key"])
        seen[k] = seen.get(k, 0) + 1
        if seen[k] <= per_key:
            out.append(d)
    return out


# ---- end-to-end through a real CLOSED update -------------------------------------------
BOOK = {
    1: {"atb": [[2.0, 5], [1.9, 5]], "atl": [[2.2, 5], [2.4, 5]], "trd": [[2.0, 10]]},
    2: {"atb": [[3.0, 5], [2.9, 5]], "atl": [[3.2, 5], [3.4, 5]]},
    3: {"atb": [[5.0, 5]], "atl": [[5.5, 5]]},
}
ORDER_MENU = [
    dict(sel=1, side="BACK", price=1.9, size=8.0),  # two fragments 5@2.0 + 3@1.9
    dict(sel=1, side="LAY", price=2.4, size=8.0),
    dict(sel=1, side="BACK", price=2.0, size=2.0),
    dict(sel=2, side="LAY", price=3.2, size=3.33),
    dict(sel=1, side="BACK", price=2.1, size=4.0),  # rests unmatched
    dict(sel=1, side="BACK", ot="MOC", liab=4.0),
    dict(sel=1, side="LAY", ot="LOC", liab=6.0, price=4.0),
    dict(sel=2, side="BACK", ot="LOC", liab=3.0, price=2.0),
    dict(sel=3, side="BACK", price=5.0, size=2.0),
    dict(sel=1, side="BACK", price=2.0, size=8.0),  # 5 @ 2.0 at once, the rest filled passively after the removal
    dict(sel=1, side="BACK", price=1.9, size=12.0),  # sweeps both levels (10), 2 rest - a full-match client tops them up at 1.9
]
MARKETS = {
    "WIN": dict(market_type="WIN", nwin=1, results=[{1: "WINNER", 2: "LOSER", 3: "LOSER"}, {1: "LOSER", 2: "WINNER", 3: "LOSER"}, {1: "WINNER", 2: "WINNER", 3: "LOSER"}, {1: "WINNER", 2: "WINNER", 3: "WINNER"}]),
    "PLACE": dict(market_type="PLACE", nwin=2, results=[{1: "WINNER", 2: "WINNER", 3: "LOSER"}, {1: "LOSER", 2: "WINNER", 3: "WINNER"}]),
    "EACH_WAY": dict(market_type="EACH_WAY", nwin=1, ew=4, results=[{1: "WINNER", 2: "PLACED", 3: "LOSER"}, {1: "PLACED", 2: "WINNER", 3: "LOSER"}, {1: "LOSER", 2: "PLACED", 3: "WINNER"}]),
}


def _e2e_one(args):
    mkey, order_idx, ri, removal, nclients, rate = args[:6]
    full_match = len(args) > 6 and bool(args[6])  # clients that force-match every successful placement in full
    M = MARKETS[mkey]
    spec = simx.MarketSpec(market_type=M["market_type"], nwin=M["nwin"], ew=M.get("ew"), sels=((1, 0), (2, 0), (3, 0)), book0=BOOK)
    result = dict(M["results"][ri])
    ticks = [[500, ["Q"]]]
    if removal:
        ticks.append([500, ["RM", 3, removal]])
    # volume trades at 2.0 on selection 1 (after the removal, if any): resting backs at 2.0 get a later fragment
    ticks.append([500, ["T", 1, [[2.0, 20]]]])
    ticks.append([500, ["IP", {1: 2.5, 2: 3.1, 3: 5.2}, 1]])
    ticks.append([500, ["CL", result]])
    strategies = []
    for c in range(nclients):
        mine = [i for k, i in enumerate(order_idx) if k % nclients == c]
        acts = [["P", dict(ORDER_MENU[i])] for i in mine]
        script = {(0, 0): acts}
        if mine and mine[0] == 4 and not removal:
            # the resting order is replaced to a price that matches: the replacement belongs to the same client
            script[(0, 1)] = [["R", 0, 2.0]]
        strategies.append(dict(script=script, client=c, kw=dict(max_order_exposure=None, max_selection_exposure=None, max_live_trade_count=100), name="S%d" % c))
    ck = {i: dict(commission_base=rate, simulated_full_match=full_match) for i in range(nclients)}
    w = simx.SimWorld([(spec, ticks)], strategies, n_clients=nclients, client_kw=ck).run()
    out = []
    counts = {"clause:C08.a": 0, "clause:C08.c": 0, "e2e_matched_orders": 0, "e2e_sp_fills": 0, "e2e_reduced_prices": 0}
    if w.run_exception is not None:
        out.append(core.v("C08.a", ("e2e", "exception", type(w.run_exception).__name__, "-", "-"), "run raised %r" % (w.run_exception,), dict(args=args)))
        return dict(violations=out, counts=counts, outcome=None)
    if removal:
        result[3] = "REMOVED"
    nw = sum(1 for r in result.values() if r == "WINNER")
    dh = nw if nw > M["nwin"] else None
    orders = w.all_orders()
    sig = []
    per_client = {}
    for o in orders:
        frags = [(p, s) for _, p, s in o.simulated.matched]
        res = result.get(o.selection_id)
        kind = {"LIMIT": "LIMIT", "LIMIT_ON_CLOSE": "LOC", "MARKET_ON_CLOSE": "MOC"}[o.order_type.ORDER_TYPE.name]
        exp, kc = refs.ref_settle(o.side, kind, False, frags, res, M["market_type"], M.get("ew"), dh, None)
        counts["clause:C08.a"] += 1
        if frags:
            counts["e2e_matched_orders"] += 1
            if kind != "LIMIT":
                counts["e2e_sp_fills"] += 1
            if removal and removal >= 2.5 and o.selection_id != 3 and kind == "LIMIT":
                counts["e2e_reduced_prices"] += 1
        got = o.profit
        sig.append((kind, o.side, res, round(got, 2)))
        if o.runner_status != res:
            out.append(core.v("C08.a", (M["market_type"], str(res), o.side, kind, "runner_status"), "order runner_status %r expected %r" % (o.runner_status, res), dict(args=args)))
        elif abs(F(str(got)) - exp) > _tol(frags, M.get("ew")):
            out.append(core.v("C08.a", (M["market_type"], str(res), o.side, kind, "dh" if dh else "nodh"), "e2e %s %s frags=%s result=%s: profit %s expected %s" % (kind, o.side, frags, res, got, float(exp)), dict(args=args)))
        if o.size_matched > 0:
            # the client is the one of the strategy that owns the order (strategy k trades through client k)
            owner = w.clients[w.strategies.index(o.trade.strategy)].username
            if kind == "LIMIT" and len(o.trade.orders) > 1:
                counts["e2e_replacements_matched"] = counts.get("e2e_replacements_matched", 0) + 1
            pc = per_client.setdefault(owner, [F(0), 0, F(0)])
            pc[0] += exp
            pc[1] += 1
            pc[2] += _tol(frags, M.get("ew"))
    # cleared market summaries
    cleared = [e for e in w.recorder.events if type(e).__name__ == "ClearedMarketsEvent"]
    by_client = {}
    for e in cleared:
        for cm in e.event.orders:
            by_client.setdefault(None, []).append(cm)
    counts["clause:C08.c"] += 1
    if len(cleared) != nclients:
        out.append(core.v("C08.c", ("e2e", "count", "-", "-", "-"), "%d ClearedMarketsEvent for %d clients" % (len(cleared), nclients), dict(args=args)))
    else:
        for c, e in zip(w.clients, cleared):
            cm = e.event.orders[0]
            exp_p, exp_n, tol = per_client.get(c.username, [F(0), 0, F(0)])
            if cm.bet_count != exp_n:
                out.append(core.v("C08.c", ("e2e", "betCount", "-", "-", "-"), "betCount %s expected %s" % (cm.bet_count, exp_n), dict(args=args)))
            if abs(F(str(cm.profit)) - exp_p) > tol + F(1, 100):
                out.append(core.v("C08.c", ("e2e", "profit", "-", "-", "-"), "cleared profit %s expected %s" % (cm.profit, float(exp_p)), dict(args=args)))
            exp_comm = round(max(cm.profit * rate, 0), 2)
            if abs(cm.commission - exp_comm) > 0.011 or (cm.profit <= 0 and cm.commission != 0):
                out.append(core.v("C08.c", ("e2e", "commission", "-", "-", "-"), "commission %s on profit %s rate %s" % (cm.commission, cm.profit, rate), dict(args=args)))
            sig.append(("cleared", round(cm.profit, 2), cm.bet_count, cm.commission))
    return dict(violations=out, counts=counts, outcome=str(sorted(map(str, sig))))


# ---- end-to-end in a line market (orders placed, replaced, matched and settled by the real run) ------------
LINE_BOOK = {
    1: {"atb": [[2.5, 5], [1.5, 5]], "atl": [[3.5, 5], [4.5, 5]], "trd": [[2.5, 10]]},
    2: {"atb": [[2.5, 5]], "atl": [[3.5, 5]]},
}
LINE = (0.5, 9.5, 1)
# (template, replace-to price or None): placed in update 0, replaced in update 1
LINE_MENU = [
    (dict(sel=1, side="BACK", price=2.5, size=4.0), None),  # matched at 2.5
    (dict(sel=1, side="LAY", price=3.5, size=3.0), None),  # matched at 3.5
    (dict(sel=1, side="BACK", price=3.5, size=4.0), 2.5),  # rests, replaced down to 2.5: the replacement matches
    (dict(sel=1, side="LAY", price=2.5, size=2.0), 4.5),  # rests, replaced up: matches at 3.5
    (dict(sel=1, side="BACK", price=1.5, size=2.0), None),  # price-improved to 2.5
    (dict(sel=1, side="LAY", price=1.5, size=2.0), None),  # never matched
]


class _LineHooks:
    def __init__(self, result):
        self.result = result

    def strategy_tick(self, w, st, market, mb, tick):
        # the line result is not in the stream: the user supplies it through the market context (documented)
        if self.result is not None:
            market.context["line_range_result"] = self.result


def _e2e_line(args):
    idxs, result = args
    spec = simx.MarketSpec(book0=LINE_BOOK, sels=((1, 0), (2, 0)), ladder="LINE_RANGE", line=LINE, market_type="TOTAL_LINE", betting_type="LINE")
    ticks = [[500, ["Q"]], [500, ["Q"]], [500, ["Q"]], [500, ["CL", {1: "WINNER", 2: "LOSER"}]]]
    acts0, acts1 = [], []
    for k, i in enumerate(idxs):
        t, rp = LINE_MENU[i]
        acts0.append(["P", dict(t, ladder="LINE_RANGE", line=LINE)])
        if rp is not None:
            acts1.append(["R", k, rp])
    script = {(0, 0): acts0}
    if acts1:
        script[(0, 1)] = acts1
    w = simx.SimWorld([(spec, ticks)], [dict(script=script, kw=dict(max_order_exposure=None, max_selection_exposure=None, max_live_trade_count=100))], hooks=_LineHooks(result)).run()
    out = []
    counts = {"clause:C08.a": 0, "clause:C08.b": 0, "e2e_line_matched": 0, "e2e_line_replacements_matched": 0}
    case = dict(line_args=[list(idxs), result])
    if w.run_exception is not None:
        out.append(core.v("C08.a", ("e2e-line", "exception", type(w.run_exception).__name__, "-", "-"), "run raised %r" % (w.run_exception,), case))
        return dict(violations=out, counts=counts, outcome=None)
    sig = []
    for o in w.all_orders():
        frags = [(p, s) for _, p, s in o.simulated.matched]
        counts["clause:C08.a"] += 1
        if not frags:
            if o.profit != 0:
                out.append(core.v("C08.a", ("e2e-line", "unmatched", o.side, "LL", "-"), "unmatched line order has profit %s" % o.profit, case))
            continue
        counts["e2e_line_matched"] += 1
        repl = len(o.trade.orders) > 1 and o is not o.trade.orders[0]
        if repl:
            counts["e2e_line_replacements_matched"] += 1
        exp, kc = refs.ref_settle(o.side, "LIMIT", True, frags, "WINNER", "TOTAL_LINE", None, None, result)
        sig.append((o.side, frags[0][0], round(o.profit, 2), kc))
        if exp is not None and abs(F(str(o.profit)) - exp) > _tol(frags, None):
            out.append(core.v("C08.a", ("e2e-line", kc, o.side, "replacement" if repl else "placed", "-"), "line market, %s %s matched %s, result %s: profit %s expected %s (even money on the stake)" % ("replacement order" if repl else "order", o.side, frags, result, o.profit, float(exp)), case))
    return dict(violations=out, counts=counts, outcome=str(sorted(map(str, sig))))


def run(tier):
    rep = core.Report("C08", tier, "E3 gridx + E1 simx")
    frs = [(p, s) for p in PRICES for s in SIZES]
    kmax = 3
    frag_sets = [list(c) for k in range(0, kmax + 1) for c in itertools.combinations_with_replacement(frs, k)]
    scs = scenarios()
    jobs = [(frag_sets[i : i + 40], scs) for i in range(0, len(frag_sets), 40)]
    for r in core.pmap(_grid_chunk, jobs, chunk=1):
        rep.add_violations(r["violations"])
        rep.merge_counts(r["counts"])
        rep.outcomes.update(map(tuple, r["outcomes"]))
    r = _line_cases()
    rep.add_violations(r["violations"])
    rep.merge_counts(r["counts"])
    grid_n = sum(rep.clauses.values())
    rep.sample({"grid_case": dict(frags=frag_sets[777], scenario=scs[2][0])})
    # end-to-end
    jobs = []
    kmax_o = 3 if tier == "thorough" else 2
    order_sets = [c for k in range(1, kmax_o + 1) for c in itertools.combinations(range(len(ORDER_MENU)), k)]
    for mkey, M in MARKETS.items():
        for ri in range(len(M["results"])):
            for removal in (None, 2.0, 20.0):
                for nclients, rate in ((1, 0.05), (2, 0.02), (1, 0.0)):
                    if tier != "thorough" and (nclients, rate) == (1, 0.0) and removal:
                        continue
                    for oset in order_sets:
                        jobs.append((mkey, oset, ri, removal, nclients, rate))
    # full-match clients: an order priced through the book gets the available part at the better price and the rest
    # at its own price - settlement follows the fills all the same
    for mkey in ("WIN", "PLACE"):
        for ri in range(len(MARKETS[mkey]["results"])):
            for oset in [c for k in (1, 2) for c in itertools.combinations((0, 1, 3, 9, 10), k)]:
                jobs.append((mkey, oset, ri, None, 1, 0.05, True))
    for r in core.pmap(_e2e_one, jobs):
        rep.add_violations(r["violations"])
        rep.merge_counts(r["counts"])
        if r["outcome"]:
            rep.outcomes.add(r["outcome"])
    lj = [(c, res) for k in (1, 2, 3) for c in itertools.combinations(range(len(LINE_MENU)), k) for res in (None, 2.0, 3.0, 5.0)]
    for r in core.pmap(_e2e_line, lj):
        rep.add_violations(r["violations"])
        rep.merge_counts(r["counts"])
        if r["outcome"]:
            rep.outcomes.add(r["outcome"])
    rep.need("e2e_line_matched", "e2e_line_replacements_matched")
    rep.need("e2e_matched_orders", "e2e_sp_fills", "e2e_reduced_prices", "e2e_replacements_matched")
    rep.sample({"e2e_case": jobs[len(jobs) // 2]})
    rep.sample({"e2e_case": jobs[-1]})
    rep.states = len(frag_sets) * len(scs) * 3 + len(jobs)
    rep.transitions = grid_n + len(jobs)
    rep.traces = len(jobs)
    rep.evaluations = sum(rep.clauses.values())
    rep.nontrivial = rep.states
    rep.rule = (
        "grid: every multiset of <=3 fragments over prices %s x sizes %s x %d settlement scenarios (win/place/each-way/dead heat 1..4/"
        "removed/unsettled) x {LIMIT,LOC,MOC} x both sides through the real Blotter.process_closed_market; line markets: 4 lines x size "
        "multisets x results below/equal/above/absent. end-to-end: every set of <=%d orders from a 9-order menu x market type x result "
        "vector x non-runner factor x clients/commission through a real CLOSED update" % (PRICES, SIZES, len(scs), kmax_o)
    )
    rep.bounds = dict(max_fragments=kmax, prices=PRICES, sizes=SIZES, scenarios=len(scs), e2e_runs=len(jobs), e2e_max_orders=kmax_o)
    rep.assumptions = [
        "settlement rules restated in mc/refs.ref_settle (Appendix A3); tolerance 0.005*S*(1+1/d)+0.005 because flumine settles on the 2dp average price",
        "dead heat only in one-winner ODDS markets; each-way dead heats are outside (flumine logs an error)",
        "grid part uses a plain stub for the closed book (runner statuses, market type, divisor, winners); the end-to-end part uses real books",
        "a line result equal to 0 is indistinguishable from 'not provided' in flumine's API and is treated as not provided",
    ]
    return rep.finish()


def replay(rep):
    if "line_args" in rep["case"]:
        a = rep["case"]["line_args"]
        r = _e2e_line((tuple(a[0]), a[1]))
        for d in r["violations"]:
            print(d["key"], d["detail"])
        return 1 if r["violations"] else 0
    return _replay(rep)


def _replay(rep):
    case = rep["case"]
    if "args" in case:
        a = case["args"]
        r = _e2e_one((a[0], tuple(a[1]), a[2], a[3], a[4], a[5]) + ((a[6],) if len(a) > 6 else ()))
    elif "line" in case:
        r = _line_cases()
    else:
        scs = [s for s in scenarios() if s[0] == case["scenario"]]
        r = _grid_chunk(([[tuple(f) for f in case["frags"]]], scs))
    for d in r["violations"]:
        print(d["key"], d["detail"])
    return 1 if r["violations"] else 0
