"""C13 Strategies are isolated from each other and from callback errors — E1 simx.
(1) metamorphic program-space enumeration: ledger(A alone) == ledger(A in A+B) == ledger(A in B+A)
(2) fault injection at every callback invocation of a run (raise_errors False)."""
import itertools

from mc import core, simx
from props import simlife as L

CLAUSES = {
    "C13.a": "with isolation on, a strategy's fills, statuses, timestamps and profit are identical alone, alongside any other strategy, and in either registration order",
    "C13.b": "an exception in a documented callback is contained: every other strategy still receives every update exactly once, in order",
    "C13.c": "middleware still runs before strategies on every update",
    "C13.d": "order state stays consistent (size conservation, accounting, blotter views) and the run terminates normally",
}

P_MENU = ["PBn", "XBp", "PL", "PB", "FOK", "P2", "TB", "XL"]
HISTORIES = {
    "H1": ["T21", "T22", "T21", "T2x", "Q", "CL"],
    "H2": ["T2x", "SUS", "OPN", "T21", "T22", "T2x"],
    "H3": ["T22", "T22", "IP", "T21", "T20", "CL2"],
    # a non-runner declared in an update that also carries trades on the other runner (either way round)
    "H4": ["T21", "Q", "RM1T3", "T3", "T3", "CL2"],
    "H5": ["T3", "Q", "RM2T21", "T21", "T22", "CL"],
}


def programs(rich):
    progs = []
    for p in P_MENU:
        first = L.P(p)
        seconds = [None, ["C", 0, None], ["C", 0, 2.0], ["R", 0, 2.3], ["R", 0, 2.0]] + [L.P(q) for q in (P_MENU if rich else P_MENU[:4])]
        for s in seconds:
            prog = {0: [first]}
            if s is not None:
                prog[2] = [s]
            progs.append(prog)
    return progs


def ledger(st, w):
    out = []
    orders = list(getattr(st, "_created", []))
    m = w.market(0)
    if m is not None:
        for o in m.blotter.strategy_orders(st):
            if not any(o is x for x in orders):
                orders.append(o)
    for o in orders:
        s = o.simulated
        out.append(
            (
                o.order_type.ORDER_TYPE.name,
                o.side,
                getattr(o.order_type, "price", None),
                getattr(o.order_type, "size", None),
                tuple(x.name for x in o.status_log),
                (s.size_matched, s.size_cancelled, s.size_lapsed, s.size_voided, o.size_remaining, s.average_price_matched),
                tuple(tuple(f) for f in s.matched),
                str(o.date_time_created),
                str(o.date_time_execution_complete),
                str(o.responses.date_time_placed),
                o.profit,
                o.runner_status,
                o.trade.status.name,
                tuple(x.name for x in o.trade.status_log),
            )
        )
    return out


def _run(hist_name, progs, clients=1, names=None):
    ticks = [[200, L.EVENTS[e]] for e in HISTORIES[hist_name]]
    spec = simx.MarketSpec(book0=L.BOOK0)
    strategies = []
    for k, prog in enumerate(progs):
        script = {(0, t): acts for t, acts in prog.items()}
        strategies.append(dict(script=script, name=(names[k] if names else "S%d" % k), client=(k % clients), kw=dict(max_order_exposure=None, max_selection_exposure=None, max_live_trade_count=3)))
    L._install_created_tracking()
    w = simx.SimWorld([(spec, ticks)], strategies, n_clients=clients).run()
    return w


def _same_name_chunk(args):
    """two strategies carrying the SAME name (flumine only warns about it) are still two strategies: each one's
    ledger equals its ledger alone, in either registration order"""
    hist_name, ai, bis = args
    progs = programs(False)
    A = progs[ai]
    out = []
    counts = {"clause:C13.a": 0, "same_name_pairs": 0}
    w0 = _run(hist_name, [A], names=["S"])
    base = ledger(w0.strategies[0], w0)
    for bi in bis:
        B = progs[bi]
        for order in ("AB", "BA"):
            ps = [A, B] if order == "AB" else [B, A]
            w = _run(hist_name, ps, names=["S", "S"])
            counts["clause:C13.a"] += 1
            counts["same_name_pairs"] += 1
            sa = w.strategies[0] if order == "AB" else w.strategies[1]
            got = ledger(sa, w)
            if w.run_exception is not None or got != base:
                out.append(core.v("C13.a", ("process_market_book", "none", "ledger same-name"), "history %s order %s: ledger of a strategy differs alone vs next to another strategy with the same name\nA=%s\nB=%s\nalone=%s\nwith =%s" % (hist_name, order, A, B, base, got), dict(same_name=[hist_name, ai, bi])))
    return dict(violations=_dedup(out), counts=counts, outcomes=[])


def _event_group_one(args):
    """event-grouped simulation: a co-running strategy brings a SECOND market of the same event into the run, one
    that closes while the first market is still trading.  The first strategy's ledger on its own market is the one
    it has alone (the other market's updates, closure and clean-up do not touch it)."""
    hist_name, ai, b_len = args
    progs = programs(False)
    A = progs[ai]
    out = []
    counts = {"clause:C13.a": 0, "event_group_pairs": 0}
    case = dict(event_group=[hist_name, ai, b_len])

    def run(with_b):
        ticks1 = [[200, L.EVENTS[e]] for e in HISTORIES[hist_name]]
        m1 = (simx.MarketSpec(market_id="1.100000001", event_id="30000001", book0=L.BOOK0), ticks1)
        kw = dict(max_order_exposure=None, max_selection_exposure=None, max_live_trade_count=3)
        strategies = [dict(script={(0, t): acts for t, acts in A.items()}, name="A", kw=dict(kw), markets=[0])]
        markets = [m1]
        if with_b:
            # the second market of the event starts 70 ms later and closes after b_len updates
            ticks2 = [[200, L.EVENTS["T21"]]] * b_len + [[200, L.EVENTS["CL"]]]
            markets.append((simx.MarketSpec(market_id="1.100000002", event_id="30000001", book0=L.BOOK0, t0=simx.T0 + 70), ticks2))
            strategies.append(dict(script={(1, 0): [L.P("PBn")]}, name="B", kw=dict(kw), markets=[1]))
        L._install_created_tracking()
        w = simx.SimWorld(markets, strategies, event_processing=True).run()
        return w, ledger(w.strategies[0], w)

    w0, base = run(False)
    w1, got = run(True)
    counts["clause:C13.a"] += 1
    counts["event_group_pairs"] += 1
    if w0.run_exception is not None or w1.run_exception is not None:
        out.append(core.v("C13.a", ("process_market_book", "event-group", "exception"), "run raised %r / %r" % (w0.run_exception, w1.run_exception), case))
    elif got != base:
        out.append(core.v("C13.a", ("process_market_book", "event-group", "ledger"), "history %s: ledger of A on its own market differs when another strategy brings in a second market of the event that closes after %d updates\nalone=%s\nwith =%s" % (hist_name, b_len, base, got), case))
    return dict(violations=out, counts=counts, outcome=str(("eg", hist_name, ai, b_len, len(base))))


_AIO = None


def _act_in_orders_cls():
    """a strategy that places its follow-up orders from process_orders (not from process_market_book)"""
    global _AIO
    if _AIO is None:
        Scripted, _ = simx.classes()

        class ActInOrders(Scripted):
            late_script = None  # {tick: [actions]} executed in process_orders of that update
            _tick_now = -1

            def process_market_book(self, market, market_book):
                self._tick_now = self.counts[market.market_id]
                self._done_late = False
                return super().process_market_book(market, market_book)

            def process_orders(self, market, orders):
                super().process_orders(market, orders)
                acts = (self.late_script or {}).get(self._tick_now)
                if acts and not self._done_late:
                    self._done_late = True
                    for a in acts:
                        self.do(a, market, 0, self._tick_now)

        _AIO = ActInOrders
    return _AIO


def _orders_callback_one(args):
    """metamorphic: a strategy whose first order completes at once and which places again from process_orders a few
    updates later gets the same ledger alone and next to a strategy holding a resting order (either order)"""
    hist_name, late_tick, b_name = args[:3]
    # idle: the observed strategy has no order of its own in the market when the other one trades - whether (and with
    # what) its process_orders is called must not depend on the other strategy either
    idle = len(args) > 3 and args[3]
    cls = _act_in_orders_cls()
    out = []
    counts = {"clause:C13.a": 0, "orders_callback_pairs": 0, "orders_callback_followups": 0}
    case = dict(orders_callback=[hist_name, late_tick, b_name] + ([True] if idle else []))

    def run(with_b, order):
        ticks = [[200, L.EVENTS[e]] for e in HISTORIES[hist_name]]
        spec = simx.MarketSpec(book0=L.BOOK0)
        kw = dict(max_order_exposure=None, max_selection_exposure=None, max_live_trade_count=3)
        a = dict(script={} if idle else {(0, 0): [L.P("XB")]}, name="A", kw=dict(kw), cls=cls)
        b = dict(script={(0, 0): [L.P(b_name)]}, name="B", kw=dict(kw))
        strategies = [a] + ([b] if with_b else [])
        if order == "BA":
            strategies.reverse()

        def setup(w):
            for st in w.strategies:
                if st.name == "A":
                    st.late_script = {late_tick: [L.P("PBn")]}

        L._install_created_tracking()
        w = simx.SimWorld([(spec, ticks)], strategies, flumine_setup=setup).run()
        sa = [s for s in w.strategies if s.name == "A"][0]
        return w, ledger(sa, w)

    w0, base = run(False, "AB")
    if len(base) > 1:
        counts["orders_callback_followups"] += 1
    if idle:
        counts["orders_callback_idle"] = 1
    for order in ("AB", "BA"):
        w, got = run(True, order)
        counts["clause:C13.a"] += 1
        counts["orders_callback_pairs"] += 1
        if w.run_exception is not None or w0.run_exception is not None:
            out.append(core.v("C13.a", ("process_orders", "none", "exception"), "run raised %r / %r" % (w0.run_exception, w.run_exception), case))
        elif got != base:
            out.append(core.v("C13.a", ("process_orders", "none", "ledger"), "history %s: a strategy acting in process_orders at update %d has %d order(s) alone and %d next to a strategy with a resting %s (registration %s)" % (hist_name, late_tick, len(base), len(got), b_name, order), case))
    return dict(violations=_dedup(out), counts=counts, outcome=str((hist_name, late_tick, b_name, len(base))))


def _meta_chunk(args):
    hist_name, ai, bis, rich, clients = args
    progs = programs(rich)
    A = progs[ai]
    out = []
    counts = {"clause:C13.a": 0, "pairs_both_filled": 0, "pairs_same_price_competition": 0}
    sigs = set()
    w0 = _run(hist_name, [A], names=["A"])
    base = ledger(w0.strategies[0], w0)
    if w0.run_exception is not None:
        out.append(core.v("C13.a", ("process_market_book", "none", "exception"), "solo run raised %r" % (w0.run_exception,), dict(history=hist_name, A=A)))
        return dict(violations=out, counts=counts, outcomes=[])
    a_filled = any(l[5][0] > 0 for l in base)
    for bi in bis:
        B = progs[bi]
        for order in ("AB", "BA"):
            ps = [A, B] if order == "AB" else [B, A]
            names = ["A", "B"] if order == "AB" else ["B", "A"]
            w = _run(hist_name, ps, clients=clients, names=names)
            counts["clause:C13.a"] += 1
            sa = w.strategies[0] if order == "AB" else w.strategies[1]
            sb = w.strategies[1] if order == "AB" else w.strategies[0]
            got = ledger(sa, w)
            lb = ledger(sb, w)
            if order == "AB" and a_filled and any(l[5][0] > 0 for l in lb):
                counts["pairs_both_filled"] += 1
                if {(l[1], l[2]) for l in base} & {(l[1], l[2]) for l in lb}:
                    counts["pairs_same_price_competition"] += 1
            sigs.add(core.stable_hash(got))
            if got != base:
                fld = "ledger"
                names_f = ("type", "side", "price", "size", "status_log", "buckets", "fragments", "created", "complete_time", "placed_time", "profit", "runner_status", "trade_status", "trade_log")
                for x, y in zip(got, base):
                    for i, (p, q) in enumerate(zip(x, y)):
                        if p != q:
                            fld = names_f[i]
                            break
                    if fld != "ledger":
                        break
                out.append(
                    core.v(
                        "C13.a",
                        ("process_market_book", "none", fld),
                        "history %s order %s clients %d: ledger of A differs (%s) alone vs with B\nA=%s\nB=%s\nalone=%s\nwith =%s" % (hist_name, order, clients, fld, A, B, base, got),
                        dict(history=hist_name, A=A, B=B, order=order, clients=clients),
                        size=len(str(A)) + len(str(B)),
                    )
                )
    return dict(violations=_dedup(out), counts=counts, outcomes=sorted(sigs))


# ---- fault injection -------------------------------------------------------------------
class Rec:
    """Hooks: Life oracles (C04/C10/C15) + global call log."""

    def __init__(self, life):
        self.life = life
        self.calls = []  # (kind, who, callback, pt)
        self.packaged = set()  # (id(order), package type) handed to the execution layer

    def package(self, w, p):
        for o in p._orders:
            self.packaged.add((id(o), p.package_type.name))
        cb = getattr(self.life, "package", None)
        if cb:
            cb(w, p)

    def __getattr__(self, name):
        return getattr(self.life, name)


def _fault_classes():
    Scripted, Auditor = simx.classes()
    from flumine.exceptions import FlumineException
    from flumine.markets.middleware import Middleware

    class Boom(FlumineException):
        pass

    class Faulty(Scripted):
        fault = None  # (callback, index, exc kind)
        log_calls = None

        def _maybe(self, cb, market_book=None):
            n = self.counts_cb.get(cb, 0)
            self.counts_cb[cb] = n + 1
            if self.log_calls is not None:
                self.log_calls.append(("st", self.name, cb, market_book.publish_time_epoch if market_book is not None else None))
            if self.fault and self.fault[0] == cb and self.fault[1] == n:
                self.fired = True
                raise (Boom("injected") if self.fault[2] == "flumine" else ValueError("injected"))

        def __init__(self, *a, **k):
            super().__init__(*a, **k)
            self.counts_cb = {}
            self.fired = False

        def process_new_market(self, market, market_book):
            self._maybe("process_new_market", market_book)

        def check_market_book(self, market, market_book):
            self._maybe("check_market_book", market_book)
            return True

        def process_market_book(self, market, market_book):
            self._maybe("process_market_book", market_book)
            if self.fault and self.fault[0] == "in_transaction":
                n = self.counts_cb.get("in_transaction", 0)
                self.counts_cb["in_transaction"] = n + 1
                if self.fault[1] == n:
                    # the strategy's own code batches a placement and a cancel of its first order in a
                    # `with market.transaction()` block and raises inside the block
                    self.fired = True
                    self.do(["TXR", [L.P("PBn"), ["C", 0, None]]], market, 0, n)
            return super().process_market_book(market, market_book)

        def process_orders(self, market, orders):
            self._maybe("process_orders", market.market_book)
            return super().process_orders(market, orders)

    class FaultyMW(Middleware):
        def __init__(self, fault, log_calls):
            self.fault = fault
            self.n = 0
            self.log_calls = log_calls
            self.fired = False

        def __call__(self, market):
            n = self.n
            self.n += 1
            self.log_calls.append(("mw", "FaultyMW", "__call__", market.market_book.publish_time_epoch))
            if self.fault and self.fault[0] == "middleware" and self.fault[1] == n:
                self.fired = True
                raise (Boom("injected") if self.fault[2] == "flumine" else ValueError("injected"))

    return Faulty, FaultyMW


_FC = None


def _fault_one(args):
    global _FC
    hist_name, target, fault = args  # target: 0 (strategy A) / 1 (strategy B) / "mw"
    if _FC is None:
        _FC = _fault_classes()
    Faulty, FaultyMW = _FC
    evs = HISTORIES[hist_name]
    hist = [[200, L.EVENTS[e], []] for e in evs]
    life = L.Life({"C04", "C10", "C15"}, hist, extra={"cfg": None})
    rec = Rec(life)
    calls = rec.calls
    ticks = [[t[0], t[1]] for t in hist]
    spec = simx.MarketSpec(book0=L.BOOK0)
    progA = {(0, 0): [L.P("PBn")], (0, 1): [L.P("XBp")], (0, 3): [["C", 0, 2.0]]}
    progB = {(0, 0): [L.P("PL")], (0, 2): [L.P("PB")], (0, 3): [["R", 0, 2.3]]}
    kw = dict(max_order_exposure=None, max_selection_exposure=None, max_live_trade_count=3)
    strategies = [dict(script=progA, name="A", kw=dict(kw), cls=Faulty), dict(script=progB, name="B", kw=dict(kw), cls=Faulty)]
    mw = FaultyMW(fault if target == "mw" else None, calls)

    def setup(w):
        w.framework.add_market_middleware(mw)
        for k, st in enumerate(w.strategies):
            st.log_calls = calls
            if target == k:
                st.fault = fault

    L._install_created_tracking()
    w = simx.SimWorld([(spec, ticks)], strategies, hooks=rec, flumine_setup=setup)
    w.run()
    out = []
    counts = {"clause:C13.b": 0, "clause:C13.c": 0, "clause:C13.d": 0, "faults_fired": 0}
    case = dict(history=hist_name, target=target, fault=list(fault) if fault else None)
    cbk, idx, exc = fault if fault else ("none", 0, "none")
    key = lambda pred: (cbk, exc, pred)
    fired = (mw.fired if target == "mw" else (w.strategies[target].fired if fault else False))
    if fired:
        counts["faults_fired"] += 1
    # d) terminates normally
    counts["clause:C13.d"] += 1
    if w.run_exception is not None:
        out.append(core.v("C13.d", key("run aborted"), "run raised %r" % (w.run_exception,), case))
    pts = w.pts[spec.market_id]
    open_pts = [p for p, e in zip(pts, [None] + evs) if not (e and e.startswith("CL"))]
    # b) every other strategy still receives every update exactly once, in order
    for k, st in enumerate(w.strategies):
        if k == target:
            continue
        counts["clause:C13.b"] += 1
        seen = [pt for (mid, pt) in st.seen]
        if seen != open_pts:
            pred = "missing" if len(seen) < len(open_pts) else ("duplicate" if len(seen) > len(open_pts) else "order")
            out.append(core.v("C13.b", key("delivery " + pred), "strategy %s received %d updates %s, expected %d" % (st.name, len(seen), seen, len(open_pts)), case))
        for cb in ("check_market_book", "process_market_book"):
            got = [c[3] for c in calls if c[0] == "st" and c[1] == st.name and c[2] == cb]
            if got != open_pts:
                out.append(core.v("C13.b", key("delivery %s" % cb), "strategy %s %s called for %s" % (st.name, cb, got), case))
    aud = [pt for (mid, pt) in w.auditor.seen]
    if aud != open_pts:
        out.append(core.v("C13.b", key("delivery auditor"), "last strategy received %s" % aud, case))
    # c) middleware before strategies in every update
    counts["clause:C13.c"] += 1
    by_pt = {}
    for i, c in enumerate(calls):
        by_pt.setdefault(c[3], []).append((i, c[0]))
    for pt in open_pts:
        seq = by_pt.get(pt, [])
        mws = [i for i, k in seq if k == "mw"]
        sts = [i for i, k in seq if k == "st"]
        if not mws or (sts and max(mws) > min(sts)):
            out.append(core.v("C13.c", key("ordering"), "update %s: middleware calls %s, strategy calls %s" % (pt, mws, sts), case))
            break
    # d) no request that was accepted is stranded: an order waiting for an answer has a package that carries it
    m0 = w.market(0)
    if m0 is not None:
        need = {"PENDING": "PLACE", "CANCELLING": "CANCEL", "UPDATING": "UPDATE", "REPLACING": "REPLACE"}
        for o in m0.blotter:
            stn = L.sname(o.status)
            if stn in need and (id(o), need[stn]) not in rec.packaged:
                out.append(core.v("C13.d", key("stranded " + stn), "order of strategy %s is %s but no %s package carrying it was ever handed to the execution layer" % (o.trade.strategy.name, stn, need[stn]), case))
    # d) invariants
    for d in life.viol:
        out.append(core.v("C13.d", key("invariant " + d["key"][0]), d["detail"], case))
    return dict(violations=_dedup(out), counts=counts, outcome=str((fired, w.run_exception is None, len(calls))))


# ---- live dispatch loop: raw-data, sports-data, custom-event, market-book callbacks ------------------
LIVE_CALLBACKS = ("process_raw_data", "check_sports_data", "process_sports_data", "custom_event", "check_market_book", "process_market_book", "process_new_market")


def _live_fault_one(args):
    cb, idx, exc, target = args
    from mc import livex
    from flumine.events import events
    from flumine.exceptions import FlumineException

    class Boom(FlumineException):
        pass

    w = livex.LiveWorld([], strategies=("A", "B", "C"), markets=["1.100000001"])
    w.start()
    out = []
    counts = {"clause:C13.b": 0, "clause:C13.d": 0, "live_faults_fired": 0}
    case = dict(live_fault=[cb, idx, exc, target])
    key = lambda pred: (cb, exc, pred)
    try:
        fw = w.framework
        seen = {s.name: [] for s in w.strategies}
        n_calls = {"n": 0}
        fired = {"f": False}
        from flumine.markets.middleware import Middleware

        class Stamp(Middleware):
            def __call__(self, market):
                market.context["verif_stamp"] = market.market_book.publish_time_epoch

        fw.add_market_middleware(Stamp())
        unordered = []

        def stamped(market, mb, who, which):
            counts["clause:C13.c"] = counts.get("clause:C13.c", 0) + 1
            if market.context.get("verif_stamp") != mb.publish_time_epoch:
                unordered.append((who, which, market.market_id))

        def maybe(name, which):
            if name == w.strategies[target].name and which == cb:
                k = n_calls["n"]
                n_calls["n"] += 1
                if k == idx:
                    fired["f"] = True
                    raise (Boom("injected") if exc == "flumine" else ValueError("injected"))

        for st in w.strategies:
            def raw(clk, pt, datum, st=st):
                seen[st.name].append(("raw", pt, datum.get("id", datum.get("marketId"))))
                maybe(st.name, "process_raw_data")

            def chk_sd(market, sd, st=st):
                maybe(st.name, "check_sports_data")
                return True

            def sd_(market, sd, st=st):
                seen[st.name].append(("sports", sd.publish_time, market.market_id))
                maybe(st.name, "process_sports_data")

            def chk_mb(market, mb, st=st):
                maybe(st.name, "check_market_book")
                return True

            def pmb(market, mb, st=st):
                seen[st.name].append(("book", mb.publish_time_epoch))
                stamped(market, mb, st.name, "process_market_book")
                maybe(st.name, "process_market_book")

            def pnm(market, mb, st=st):
                seen[st.name].append(("new", market.market_id))
                stamped(market, mb, st.name, "process_new_market")
                maybe(st.name, "process_new_market")

            st.process_raw_data, st.check_sports_data, st.process_sports_data = raw, chk_sd, sd_
            st.check_market_book, st.process_market_book, st.process_new_market = chk_mb, pmb, pnm
        sid = w.strategies[0].streams[0].stream_id
        customs = []
        expected = {"raw": [], "sports": [], "book": [], "new": []}

        def custom_cb(flumine, event):
            customs.append(event.event)
            if cb == "custom_event":
                k = n_calls["n"]
                n_calls["n"] += 1
                if k == idx:
                    fired["f"] = True
                    raise (Boom("injected") if exc == "flumine" else ValueError("injected"))

        class SD:
            def __init__(self, pt):
                self.market_id = "1.100000001"
                self.streaming_unique_id = sid
                self.publish_time = pt

        class SDE:  # sports data keyed by event (cricket): goes to every market of the event
            def __init__(self, pt, event_id):
                self.event_id = event_id
                self.streaming_unique_id = sid
                self.publish_time = pt

        for n in range(3):
            w.clock_ms += 1000
            w.set_clock()
            pt = w.clock_ms
            if n == 1:
                # the market closes and data for it arrives again (re-opened): later updates still come once
                w.books["1.100000001"] = w._make_book("1.100000001", "CLOSED")
                w.dispatch(w._book_event("1.100000001"))
                w.books["1.100000001"] = w._make_book("1.100000001", "OPEN")
                w.dispatch(w._book_event("1.100000001"))
                expected["book"].append(("book", pt))
            data = [{"id": "1.100000001", "rc": []}, {"marketId": "1.55", "eventId": "9"}, {"id": "1.10000000%d" % (2 + n), "marketDefinition": {"status": "OPEN", "eventId": "1"}}]
            w.dispatch(events.RawDataEvent((sid, "clk", pt, data)))
            expected["raw"] += [("raw", pt, d.get("id", d.get("marketId"))) for d in data]
            w.dispatch(events.SportsDataEvent([SD(pt)]))
            expected["sports"].append(("sports", pt, "1.100000001"))
            w.dispatch(events.CustomEvent(n, custom_cb))
            w.books["1.10000000%d" % (7 + n)] = w._make_book("1.10000000%d" % (7 + n))
            w.dispatch(w._book_event("1.10000000%d" % (7 + n)))  # a new market: process_new_market + book callbacks
            expected["new"].append(("new", "1.10000000%d" % (7 + n)))
            expected["book"].append(("book", pt))
            w.dispatch(w._book_event("1.100000001"))
            expected["book"].append(("book", pt))
            eid = fw.markets.markets["1.100000001"].event_id
            w.dispatch(events.SportsDataEvent([SDE(pt + 1, eid)]))
            expected["sports"] += [("sports", pt + 1, m.market_id) for m in fw.markets if m.event_id == eid]
        counts["live_event_sports_callbacks"] = len(expected["sports"]) - 3
        if fired["f"]:
            counts["live_faults_fired"] += 1
        counts["clause:C13.d"] += 1
        if w.handler_exceptions:
            out.append(core.v("C13.d", key("exception escaped the dispatch loop"), w.handler_exceptions[0][-300:], case))
        if unordered:
            out.append(core.v("C13.c", key("ordering live"), "callback %s of strategy %s for market %s ran before the middleware of that update" % (unordered[0][1], unordered[0][0], unordered[0][2]), case))
        if customs != [0, 1, 2]:
            out.append(core.v("C13.b", key("custom events"), "custom event callbacks ran for %s" % customs, case))
        for i, st in enumerate(w.strategies):
            if i == target:
                continue
            counts["clause:C13.b"] += 1
            for kind in ("raw", "sports", "book", "new"):
                got = [x for x in seen[st.name] if x[0] == kind]
                exp_k = expected[kind]
                if kind == "sports":  # the order in which the markets of an event are visited is not part of the claim
                    got, exp_k = sorted(got), sorted(exp_k)
                if got != exp_k:
                    pred = "missing" if len(got) < len(expected[kind]) else ("duplicate" if len(got) > len(expected[kind]) else "order")
                    out.append(core.v("C13.b", key("delivery %s %s" % (kind, pred)), "strategy %s received %d of %d %s callbacks" % (st.name, len(got), len(expected[kind]), kind), case))
    finally:
        w.stop()
    return dict(violations=_dedup(out), counts=counts, outcome=str((cb, fired["f"], len(out))))


def _dedup(vs, per_key=1):
    seen, out = {}, []
    for d in vs:
        k = tuple(d["key"])
        seen[k] = seen.get(k, 0) + 1
        if seen[k] <= per_key:
            out.append(d)
    return out


def run(tier):
    rep = core.Report("C13", tier, "E1 simx")
    thorough = tier == "thorough"
    progs = programs(thorough)
    n = len(progs)
    jobs = []
    for hn in HISTORIES:
        for ai in range(n):
            bis = list(range(n))
            jobs.append((hn, ai, bis, thorough, 1))
            if thorough or ai % 3 == 0:
                jobs.append((hn, ai, bis[:: (1 if thorough else 3)], thorough, 2))
    runs = 0
    for j, r in zip(jobs, core.pmap(_meta_chunk, jobs, chunk=1)):
        rep.add_violations(r["violations"])
        rep.merge_counts(r["counts"])
        rep.outcomes.update(r["outcomes"])
        runs += 1 + 2 * len(j[2])
    n0 = len(programs(False))  # the same-name pairs use the basic program set in both tiers
    sj = [(hn, ai, list(range(0, n0, 4))) for hn in ("H1", "H2") for ai in range(0, n0, 4)]
    for r in core.pmap(_same_name_chunk, sj, chunk=1):
        rep.add_violations(r["violations"])
        rep.merge_counts(r["counts"])
        runs += r["counts"]["same_name_pairs"]
    ej = [(hn, ai, bl) for hn in ("H1", "H2", "H4") for ai in range(0, n0, 3) for bl in (1, 2, 3)]
    for r in core.pmap(_event_group_one, ej):
        rep.add_violations(r["violations"])
        rep.merge_counts(r["counts"])
        rep.outcomes.add(r["outcome"])
    runs += 2 * len(ej)
    rep.need("event_group_pairs")
    oj = [(hn, lt, bn) for hn in HISTORIES for lt in (1, 2, 3, 4) for bn in ("PB", "PL", "P2")]
    oj += [(hn, lt, bn, True) for hn in HISTORIES for lt in (1, 3) for bn in ("PB", "XB")]
    for r in core.pmap(_orders_callback_one, oj):
        rep.add_violations(r["violations"])
        rep.merge_counts(r["counts"])
        rep.outcomes.add(r["outcome"])
    runs += 3 * len(oj)
    rep.need("orders_callback_followups", "orders_callback_idle")
    rep.sample({"history": "H1", "A": progs[1], "B": progs[7]})
    # fault injection: every callback kind x invocation index x exception kind x target
    fj = []
    for hn in HISTORIES:
        nupd = len(HISTORIES[hn]) + 1
        fj.append((hn, None, None))
        for target in (0, 1):
            for cb in ("check_market_book", "process_market_book", "process_orders", "process_new_market"):
                for idx in range(nupd if cb != "process_new_market" else 1):
                    for exc in ("value", "flumine"):
                        fj.append((hn, target, (cb, idx, exc)))
            for idx in range(nupd - 1):
                fj.append((hn, target, ("in_transaction", idx, "value")))
        for idx in range(nupd):
            for exc in ("value", "flumine"):
                fj.append((hn, "mw", ("middleware", idx, exc)))
    for r in core.pmap(_fault_one, fj):
        rep.add_violations(r["violations"])
        rep.merge_counts(r["counts"])
        rep.outcomes.add(r["outcome"])
    runs += len(fj)
    lf = [(None, 0, "none", 0)]
    for cbk in LIVE_CALLBACKS:
        for idx in range(9 if cbk == "process_raw_data" else (6 if "market_book" in cbk else 3)):
            for exc in ("value", "flumine"):
                for target in (0, 1):
                    lf.append((cbk, idx, exc, target))
    for r in core.pmap(_live_fault_one, lf):
        rep.add_violations(r["violations"])
        rep.merge_counts(r["counts"])
        rep.outcomes.add(r["outcome"])
    runs += len(lf)
    rep.need("pairs_both_filled", "pairs_same_price_competition", "faults_fired", "live_faults_fired", "live_event_sports_callbacks")
    rep.sample({"fault_injection": fj[len(fj) // 2]})
    rep.states = runs
    rep.transitions = runs
    rep.traces = runs
    rep.evaluations = sum(rep.clauses.values())
    rep.nontrivial = len(rep.outcomes)
    rep.bounds = dict(programs=n, histories=list(HISTORIES), pairs=n * n, registration_orders=2, clients=[1, 2], fault_injections=len(fj))
    rep.rule = "all ordered pairs of %d strategy programs (first placement from %d templates, optional second action at update 2: cancel/partial cancel/replace/another placement) x 3 market histories x both registration orders (x 2 clients for a subset); fault injection at every invocation index of check_market_book / process_market_book / process_orders / process_new_market of either strategy and of a middleware, ValueError and FlumineException; distinct_nontrivial = distinct ledgers / fault outcomes" % (n, len(P_MENU))
    rep.assumptions = [
        "bet ids and order/trade ids are excluded from the ledger (a shared counter / uuid)",
        "process_closed_market is not in the statement's list of contained callbacks and is not injected; sports-data, raw-data, custom-event, new-market and market-book callbacks of the live dispatch loop are injected through the real Flumine.run() loop",
        "simulated_strategy_isolation=True",
    ]
    return rep.finish()


def replay(rep):
    c = rep["case"]
    if "event_group" in c:
        r = _event_group_one(tuple(c["event_group"]))
        for d in r["violations"]:
            print(d["key"], d["detail"][:300])
        return 1 if r["violations"] else 0
    if "same_name" in c:
        r = _same_name_chunk((c["same_name"][0], c["same_name"][1], [c["same_name"][2]]))
        for d in r["violations"]:
            print(d["key"], d["detail"][:300])
        return 1 if r["violations"] else 0
    if "orders_callback" in c:
        r = _orders_callback_one(tuple(c["orders_callback"]))
        for d in r["violations"]:
            print(d["key"], d["detail"])
        return 1 if r["violations"] else 0
    if "live_fault" in c:
        a = c["live_fault"]
        r = _live_fault_one((a[0], a[1], a[2], a[3]))
        for d in r["violations"]:
            print(d["key"], d["detail"])
        return 1 if r["violations"] else 0
    if "fault" in c:
        r = _fault_one((c["history"], c["target"], tuple(c["fault"]) if c["fault"] else None))
        for d in r["violations"]:
            print(d["key"], d["detail"])
        return 1 if r["violations"] else 0
    progs = programs(True)
    norm = lambda p: {int(k): v for k, v in p.items()}
    A, B = norm(c["A"]), norm(c["B"])
    w0 = _run(c["history"], [A], names=["A"])
    ps = [A, B] if c["order"] == "AB" else [B, A]
    w = _run(c["history"], ps, clients=c["clients"], names=["A", "B"] if c["order"] == "AB" else ["B", "A"])
    a = ledger(w0.strategies[0], w0)
    b = ledger(w.strategies[0] if c["order"] == "AB" else w.strategies[1], w)
    print("alone:", a)
    print("with :", b)
    return 1 if a != b else 0
