"""C07 Simulated latency and bet delay: no look-ahead and no free speed — E1 simx (no dedup).
Exhaustive spacing sequences around every latency boundary x request kind x latency config x bet
delay, single market and event-grouped pair; effect tick against refs A6, book identification by
alternating liquidity, timestamps, clock seen by callbacks."""
import datetime as _dt
import itertools

from mc import core, simx
from props import simlife as L

CLAUSES = {
    "C07.a": "a request takes effect at the first update of its market more than latency (+ bet delay) after it was made",
    "C07.b": "it executes against the market state immediately before that update",
    "C07.c": "until then a new order is pending with no fills and an order with a request in flight is filled exactly as its undisturbed twin",
    "C07.d": "no fill, acknowledgement, cancellation or timestamp precedes the simulated time at which it could have happened",
    "C07.e": "all time seen by strategies during the run is the publish time of the update being processed",
}

DTS = (1, 19, 20, 21, 100, 119, 120, 121, 170, 171, 280, 281, 1000, 5000)
LAT = {
    "default": dict(place_latency=0.120, cancel_latency=0.170, update_latency=0.150, replace_latency=0.280),
    "zero": dict(place_latency=0.0, cancel_latency=0.0, update_latency=0.0, replace_latency=0.0),
    "large": dict(place_latency=1.0, cancel_latency=0.021, update_latency=0.119, replace_latency=0.100),
    # placements sent asynchronously (config.async_place_orders): the simulated delay is the same
    "default-async": dict(place_latency=0.120, cancel_latency=0.170, update_latency=0.150, replace_latency=0.280, async_place_orders=True),
}
KINDS = ("place", "cancel", "update", "replace", "place+cancel", "cancel+place", "replace+cancel2", "cancel2+update", "place+cancel2")
LIQ = [[2.3, 10]]  # a BACK at 2.3 fills against it; trades at 2.2 are not eligible for a BACK at 2.3
DRY = [[1.5, 10]]
BOOK0 = {1: {"atb": DRY, "atl": [[2.4, 10]], "trd": [[2.2, 40]]}, 2: {"atb": [[3.0, 10]], "atl": [[3.2, 10]]}}


def liquid(u):
    return u % 2 == 1


def build_ticks(dts, ip_at=None, bd1=None):
    """update u (1-based) switches the back ladder: odd = liquid at 2.3, even = dry; every update also
    trades 0.8 at 2.2 (0.4 for a resting BACK 2.2)."""
    ticks = []
    close_last = ip_at == "close-last"
    for n, dt in enumerate(dts):
        u = n + 1
        if close_last and u == len(dts):
            # the market's last update is its closure: a request whose time has come takes effect there
            ticks.append([dt, ["CL", {1: "WINNER", 2: "LOSER"}]])
            continue
        evs = [["B", 1, "atb", LIQ if liquid(u) else DRY], ["T", 1, [[2.2, 0.8], [1.6, 0.8]]]]
        if ip_at is not None and not close_last and u == ip_at:
            evs.append(["IP", {}, bd1])
        ticks.append([dt, ["M", evs]])
    return ticks


class Hooks:
    def __init__(self):
        self.trans = []  # (id(order), prev, new, time, update index)
        self.clock = []  # (callback, utcnow, publish_time)
        self.snaps = []  # per update {id(o): (status, frags, cancelled, persistence)}
        self.upd = -1
        self.order_seq = []

    def after_mw(self, w, market):
        self.upd = w.tick_no + 1

    def status(self, w, o, prev, new, site):
        from flumine import config

        self.trans.append((id(o), L.sname(prev), L.sname(new), config.current_time, w.tick_no + 1, site))

    def strategy_tick(self, w, st, market, mb, tick):
        self.clock.append(("process_market_book", _dt.datetime.utcnow(), mb.publish_time, market.market_id))

    def orders(self, w, st, market, orders):
        self.clock.append(("process_orders", _dt.datetime.utcnow(), market.market_book.publish_time, market.market_id))

    def closed_end(self, w, market, mb):
        self.tick_end(w, market, mb)

    def tick_end(self, w, market, mb):
        if market.market_id != "1.100000001":
            return
        self.snaps.append({id(o): (o.status.name, [tuple(m) for m in o.simulated.matched], o.simulated.size_cancelled, o) for o in market.blotter})


def _world(dts, kind, lat, bd0, ip_at, bd1, with_request, two_markets):
    ticks = build_ticks(dts, ip_at, bd1)
    spec = simx.MarketSpec(book0=BOOK0, bet_delay=bd0)
    # R (BACK 2.2) and R2 (LAY 1.6) rest from update 1 on; each is fed 0.4 per update by its own trades
    script = {(0, 0): [["P", dict(sel=1, side="BACK", price=2.2, size=50.0)], ["P", dict(sel=1, side="LAY", price=1.6, size=50.0)]]}
    req = []
    toks = kind.split("+")
    if with_request:
        for tk in toks:  # in the order given: the pending queue keeps request order
            if tk == "place":
                req.append(["P", dict(sel=1, side="BACK", price=2.3, size=2.0)])
            elif tk == "cancel":
                req.append(["C", 0, None])
            elif tk == "cancel2":
                req.append(["C", 1, None])
            elif tk == "update":
                req.append(["U", 0, "PERSIST"])
            elif tk == "replace":
                req.append(["R", 0, 2.3])
    if req:
        script[(0, 1)] = req
    markets = [(spec, ticks)]
    if two_markets:
        # second market of the same event, updates in between (offset 7 ms, then every 60 ms)
        n2 = max(3, int(sum(dts) / 60) + 2)
        t2 = [[7 if i == 0 else 60, ["Q"]] for i in range(min(n2, 40))]
        markets.append((simx.MarketSpec(market_id="1.100000002", book0=BOOK0), t2))
    h = Hooks()
    L._install_created_tracking()
    w = simx.SimWorld(
        markets,
        [dict(script=script, kw=dict(max_order_exposure=None, max_selection_exposure=None, max_live_trade_count=5))],
        hooks=h,
        cfg=dict(LAT[lat]),
        event_processing=bool(two_markets),
    ).run()
    h.created = list(getattr(w.strategies[0], "_created", []))
    return w, h, spec.gen(ticks)[1]


def _one(args):
    dts, kind, lat, bd0, ip_at, bd1, two = args
    dts = [8000] + list(dts)  # update 1 arrives 8 s after the initial image: R is acknowledged there
    w, h, pts = _world(dts, kind, lat, bd0, ip_at, bd1, True, two)
    out = []
    counts = {"clause:C07.a": 0, "clause:C07.b": 0, "clause:C07.c": 0, "clause:C07.d": 0, "clause:C07.e": 0, "effects_observed": 0, "never_effective": 0, "executed_on_liquid_book": 0, "executed_on_dry_book": 0, "boundary_cases": 0, "bet_delay_changed_in_flight": 0}
    case = dict(dts=dts[1:], kind=kind, latency=lat, bet_delay=bd0, ip_at=ip_at, bet_delay_after=bd1, two_markets=two)
    if w.run_exception is not None:
        out.append(core.v("C07.a", (kind, "exception", type(w.run_exception).__name__), "run raised %r" % (w.run_exception,), case))
        return dict(violations=out, counts=counts, outcome=None)
    st = w.strategies[0]
    created = getattr(st, "_created", [])
    R = created[0]
    lat_cfg = LAT[lat]
    t_req = pts[1]
    # e) clock
    for cb, now, pt, mid in h.clock:
        counts["clause:C07.e"] += 1
        if now != pt:
            out.append(core.v("C07.e", (kind, "clock", cb), "utcnow() %s != publish time %s in %s" % (now, pt, cb), case))
            break
    sig = []
    reqs = []
    toks = kind.split("+")
    R2 = created[1]
    placed = created[2] if len(created) > 2 else None
    if "place" in toks:
        reqs.append(("place", placed, "PENDING"))
    if "cancel" in toks:
        reqs.append(("cancel", R, "CANCELLING"))
    if "cancel2" in toks:
        reqs.append(("cancel", R2, "CANCELLING"))
    if "update" in toks:
        reqs.append(("update", R, "UPDATING"))
    if "replace" in toks:
        reqs.append(("replace", R, "REPLACING"))
    twin = None
    for rk, o, inflight in reqs:
        if o is None:
            out.append(core.v("C07.a", (rk, "no-order", "-"), "request was not issued", case))
            continue
        base = lat_cfg[{"place": "place_latency", "cancel": "cancel_latency", "update": "update_latency", "replace": "replace_latency"}[rk]]
        delays = {base + (bd0 if rk in ("place", "replace") else 0)}
        changed = ip_at is not None and ip_at != "close-last" and rk in ("place", "replace") and bd1 != bd0
        # reference effect update(s)
        exp = set()
        for d in list(delays) + ([base + bd1] if changed else []):
            j = None
            for u in range(2, len(pts)):
                if (pts[u] - t_req) / 1000.0 > d + 1e-12:
                    j = u
                    break
            exp.add(j)
            for u in range(2, len(pts)):
                if abs((pts[u] - t_req) / 1000.0 - d) < 1e-9:
                    counts["boundary_cases"] += 1
        # observed effect: first transition out of the in-flight status
        eff = None
        tmap = {_dt.datetime.utcfromtimestamp(p_ / 1e3): u_ for u_, p_ in enumerate(pts)}
        for (oid, p, n, tm, upd, site) in h.trans:
            if oid == id(o) and p == inflight and n != inflight:
                if tm not in tmap:
                    out.append(core.v("C07.a", (rk, "wrong-market", lat), "%s took effect at %s which is not an update of its market" % (rk, tm), case))
                    eff = "bad"
                else:
                    eff = (tmap[tm], tm, n)
                break
        if eff == "bad":
            continue
        counts["clause:C07.a"] += 1
        got = eff[0] if eff else None
        if changed and eff and ip_at <= eff[0]:
            counts["bet_delay_changed_in_flight"] += 1
        if got not in exp:
            when = "never" if got is None else ("early" if (None not in exp and got < min(x for x in exp if x is not None)) or (exp == {None}) else "late")
            out.append(core.v("C07.a", (rk, when, lat), "%s requested at %d ms: took effect at update %s (t=%s ms), expected update %s; updates at %s" % (rk, 0, got, (pts[got] - t_req) if got else None, sorted(x for x in exp if x is not None) or None, [p - t_req for p in pts[1:]]), case))
            continue
        if got is None:
            counts["never_effective"] += 1
            # c) still in flight at every later update
            for u, snap in enumerate(h.snaps):
                if u >= 1 and id(o) in snap:
                    counts["clause:C07.c"] += 1
                    if snap[id(o)][0] != inflight or (rk == "place" and snap[id(o)][1]):
                        out.append(core.v("C07.c", (rk, "early", "state"), "%s not yet effective but order is %s with fills %s at update %d" % (rk, snap[id(o)][0], snap[id(o)][1], u), case))
                        break
            sig.append((rk, None))
            continue
        counts["effects_observed"] += 1
        j = got
        # d) effect time is the publish time of update j
        counts["clause:C07.d"] += 1
        if eff[1] != _dt.datetime.utcfromtimestamp(pts[j] / 1e3):
            out.append(core.v("C07.d", (rk, "timestamp", "status-change"), "effect stamped %s, update %d is at %s" % (eff[1], j, _dt.datetime.utcfromtimestamp(pts[j] / 1e3)), case))
        # c) before j
        for u in range(1, j):
            snap = h.snaps[u] if u < len(h.snaps) else {}
            if id(o) in snap:
                counts["clause:C07.c"] += 1
                if snap[id(o)][0] != inflight:
                    out.append(core.v("C07.c", (rk, "early", "status"), "order is %s at update %d, before the effect update %d" % (snap[id(o)][0], u, j), case))
                if rk == "place" and snap[id(o)][1]:
                    out.append(core.v("C07.c", (rk, "early", "fill"), "pending order has fills %s at update %d" % (snap[id(o)][1], u), case))
        if rk == "place":
            # b) which book: fragment stamped with the publish time of update j-1 iff that book was liquid
            counts["clause:C07.b"] += 1
            frs = [f for f in h.snaps[j][id(o)][1]] if j < len(h.snaps) and id(o) in h.snaps[j] else []
            at_place = [f for f in frs if f[1] == 2.3 and f[0] <= pts[j]]
            if liquid(j - 1):
                counts["executed_on_liquid_book"] += 1
                if not at_place or at_place[0][0] != pts[j - 1]:
                    out.append(core.v("C07.b", (rk, "wrong book", "liquid-before"), "book before update %d had liquidity but fills are %s (expected a fill stamped %d)" % (j, frs, pts[j - 1]), case))
            else:
                counts["executed_on_dry_book"] += 1
                if frs:
                    out.append(core.v("C07.b", (rk, "wrong book", "dry-before"), "book before update %d had no liquidity but the order filled %s" % (j, frs), case))
            # d) timestamps of the order
            counts["clause:C07.d"] += 1
            dc = _dt.datetime.utcfromtimestamp(pts[1] / 1e3)
            dj = _dt.datetime.utcfromtimestamp(pts[j] / 1e3)
            if o.date_time_created != dc:
                out.append(core.v("C07.d", (rk, "timestamp", "date_time_created"), "created %s, request update at %s" % (o.date_time_created, dc), case))
            if o.responses.date_time_placed != dj:
                out.append(core.v("C07.d", (rk, "timestamp", "date_time_placed"), "placed %s, effect update at %s" % (o.responses.date_time_placed, dj), case))
            for f in o.simulated.matched:
                if f[0] < pts[1]:
                    out.append(core.v("C07.d", (rk, "timestamp", "fragment"), "fragment stamped before the request %s" % (f,), case))
                if f[0] > pts[-1]:
                    out.append(core.v("C07.d", (rk, "timestamp", "fragment"), "fragment stamped in the future %s" % (f,), case))
        else:
            # c) in-flight order fills like its undisturbed twin before j; b/d) the effect itself
            if twin is None:
                tw, th, _ = _world(dts, kind, lat, bd0, ip_at, bd1, False, two)
                twin = th
            for u in range(1, min(j, len(h.snaps), len(twin.snaps))):
                counts["clause:C07.c"] += 1
                a = h.snaps[u].get(id(o))
                tR = twin.snaps[u][id(twin.created[created.index(o)])]
                if a is None or a[1] != tR[1]:
                    out.append(core.v("C07.c", (rk, "in-flight", "fills"), "update %d: in-flight order fills %s, undisturbed twin %s" % (u, a and a[1], tR[1]), case))
                    break
            if rk == "replace":
                # d) the replacement order is created by the request: its recorded creation time is the request's,
                # never the (earlier) creation time of the order it replaces
                repl = [x for x in o.trade.orders if x is not o]
                for x in repl:
                    counts["clause:C07.d"] += 1
                    t_req_dt = _dt.datetime.utcfromtimestamp(t_req / 1e3)
                    if x.date_time_created is None or x.date_time_created < t_req_dt or x.date_time_created > _dt.datetime.utcfromtimestamp(pts[j] / 1e3):
                        out.append(core.v("C07.d", (rk, "timestamp", "replacement-created"), "replacement order created %s, replace requested %s, effective %s" % (x.date_time_created, t_req_dt, _dt.datetime.utcfromtimestamp(pts[j] / 1e3)), case))
            if rk in ("cancel", "replace") and j < len(h.snaps):
                counts["clause:C07.b"] += 1
                a = h.snaps[j].get(id(o))
                tR = twin.snaps[j - 1][id(twin.created[created.index(o)])] if j - 1 < len(twin.snaps) else None
                # executed before update j's volume: the old order's fills stop at those of update j-1
                if tR is not None and a is not None and a[1] != tR[1]:
                    out.append(core.v("C07.b", (rk, "wrong book", "fills-after-cancel"), "cancelled at update %d but fills are %s, twin before that update had %s" % (j, a[1], tR[1]), case))
                if rk == "cancel":
                    cd = o.responses.cancel_responses[-1].cancelled_date if o.responses.cancel_responses else None
                    counts["clause:C07.d"] += 1
                    if cd != _dt.datetime.utcfromtimestamp(pts[j] / 1e3):
                        out.append(core.v("C07.d", (rk, "timestamp", "cancelled_date"), "cancelled_date %s, effect update at %s" % (cd, _dt.datetime.utcfromtimestamp(pts[j] / 1e3)), case))
            if rk == "replace" and j < len(h.snaps):
                # the replacement executes against book j-1 at 2.0
                repl = [v for k, v in h.snaps[j].items() if k not in (id(R),) and v[3].order_type.price == 2.3 and v[3] is not placed]
                counts["clause:C07.b"] += 1
                if not repl:
                    out.append(core.v("C07.b", (rk, "wrong book", "no-replacement"), "no replacement order after update %d" % j, case))
                else:
                    frs = repl[0][1]
                    if liquid(j - 1):
                        counts["executed_on_liquid_book"] += 1
                        if not frs or frs[0][0] != pts[j - 1]:
                            out.append(core.v("C07.b", (rk, "wrong book", "liquid-before"), "replacement fills %s, expected a fill stamped %d" % (frs, pts[j - 1]), case))
                    else:
                        counts["executed_on_dry_book"] += 1
                        if any(f[0] <= pts[j - 1] for f in frs):
                            out.append(core.v("C07.b", (rk, "wrong book", "dry-before"), "replacement filled %s against a dry book" % (frs,), case))
        sig.append((rk, j))
    # d) status-change times are non-decreasing tick times
    last = None
    for (oid, p, n, tm, upd, site) in h.trans:
        counts["clause:C07.d"] += 1
        if last is not None and tm < last:
            out.append(core.v("C07.d", (kind, "timestamp", "status-order"), "status change time went backwards %s < %s" % (tm, last), case))
            break
        last = tm
    return dict(violations=_dedup(out), counts=counts, outcome=str(sig))


def _version_one(args):
    """a placement / replacement that names a market version is executed against the version of the book that prevails
    when it takes effect: a version change between the request and that update lapses it (as does a wrong version),
    no change or no version named leaves it alone."""
    kind, mv, bump, lat, gap = args
    lat_s = LAT[lat]["replace_latency" if kind == "replace" else "place_latency"]
    eff = int(lat_s * 1000) + 30  # the update at which the request takes effect
    before = max(1, min(gap, eff - 1))
    if bump == "none":
        mids = [[before, ["Q"]]]
    elif bump == "VER":
        mids = [[before, ["VER"]]]
    else:  # suspended and re-opened (two version changes), open again when the request takes effect
        mids = [[max(1, before // 2), ["SUS"]], [before - max(1, before // 2) or 1, ["OPN"]]]
    used = sum(m[0] for m in mids)
    ticks = [[2000, ["Q"]]] + mids + [[max(1, eff - used), ["Q"]], [2000, ["Q"]]]
    script = {}
    if kind == "place":
        script[(0, 1)] = [["P", dict(sel=1, side="BACK", price=2.4, size=2.0, mv=mv)]]
    else:
        script[(0, 0)] = [["P", dict(sel=1, side="BACK", price=2.6, size=2.0, pers="PERSIST")]]
        script[(0, 1)] = [["R", 0, 2.4, mv]]
    spec = simx.MarketSpec(book0={1: {"atb": [[2.0, 10]], "atl": [[2.2, 10]]}, 2: {"atb": [[3.0, 10]], "atl": [[3.2, 10]]}})
    w = simx.SimWorld([(spec, ticks)], [dict(script=script, kw=dict(max_order_exposure=None, max_selection_exposure=None, max_live_trade_count=5))], cfg=dict(LAT[lat])).run()
    out = []
    counts = {"clause:C07.a": 1, "version_cases": 1, "version_lapsed": 0, "version_live": 0}
    case = dict(version=[kind, mv, bump, lat, gap])
    if w.run_exception is not None:
        out.append(core.v("C07.a", (kind, "exception", type(w.run_exception).__name__), "run raised %r" % (w.run_exception,), case))
        return dict(violations=out, counts=counts, outcome=None)
    st = w.strategies[0]
    orders = list(w.all_orders())
    expect_lapse = mv == "bad" or (mv == "cur" and bump != "none")
    if kind == "place":
        o = st.known[0] if st.known else None
        lapsed = o is not None and o.simulated.size_lapsed == 2.0 and not o.simulated.matched
        live = o is not None and o.simulated.size_lapsed == 0 and o.status.name == "EXECUTABLE"
    else:
        # a refused replacement never joins the blotter (and the original, cancelled, is all there is)
        lapsed = len(orders) == 1 and not orders[0].simulated.matched
        live = len(orders) == 2 and orders[1].status.name == "EXECUTABLE" and orders[1].simulated.size_lapsed == 0
    if expect_lapse:
        counts["version_lapsed"] += 1
        if not lapsed:
            out.append(core.v("C07.a", (kind, "version", "not-lapsed/%s/%s" % (mv, bump)), "%s naming market version %r, %s before it takes effect: not lapsed (orders %s)" % (kind, mv, "version change (%s)" % bump if bump != "none" else "no version change", [(x.status.name, x.simulated.size_lapsed, x.simulated.size_matched) for x in orders]), case))
    else:
        counts["version_live"] += 1
        if not live:
            out.append(core.v("C07.a", (kind, "version", "lapsed/%s/%s" % (mv, bump)), "%s naming market version %r with %s: not live afterwards (orders %s)" % (kind, mv, "a version change (%s)" % bump if bump != "none" else "no version change", [(x.status.name, x.simulated.size_lapsed, x.simulated.size_matched) for x in orders]), case))
    return dict(violations=out, counts=counts, outcome=None)


def _dedup(vs, per_key=1):
    seen, out = {}, []
    for d in vs:
        k = tuple(d["key"])
        seen[k] = seen.get(k, 0) + 1
        if seen[k] <= per_key:
            out.append(d)
    return out


def run(tier):
    rep = core.Report("C07", tier, "E1 simx")
    thorough = tier == "thorough"
    n_main = 4 if thorough else 3
    jobs = []
    for n in range(1, n_main + 1):
        for dts in itertools.product(DTS, repeat=n):
            for kind in KINDS:
                jobs.append((dts, kind, "default", 0, None, None, False))
    if thorough:
        for dts in itertools.product(DTS, repeat=5):
            for kind in ("place", "replace"):
                jobs.append((dts, kind, "default", 0, None, None, False))
    # other latency configurations (shorter sequences)
    for n in range(1, n_main):
        for dts in itertools.product(DTS, repeat=n):
            for kind in KINDS[:4] + KINDS[5:]:
                for lat in ("zero", "large"):
                    jobs.append((dts, kind, lat, 0, None, None, False))
    # bet delay (changing at the turn in-play between request and effect)
    bd_dts = (100, 120, 121, 1000, 1120, 1121, 5000, 5121)
    for n in range(1, 4 if thorough else 3):
        for dts in itertools.product(bd_dts, repeat=n):
            for kind in ("place", "replace", "place+cancel2"):
                for bd0, ip_at, bd1 in ((1, None, None), (5, None, None), (0, 2, 1), (1, 2, 5), (5, 3, 1), (0, 3, 5)):
                    jobs.append((dts, kind, "default", bd0, ip_at, bd1, False))
                    if kind == "place" and ip_at is None:
                        jobs.append((dts, kind, "default-async", bd0, ip_at, bd1, False))
    # event-grouped pair
    for n in range(1, 3 if not thorough else 4):
        for dts in itertools.product((19, 120, 121, 171, 281, 1000), repeat=n):
            for kind in KINDS[:4]:
                jobs.append((dts, kind, "default", 0, None, None, True))
    # the closing update as the (possible) effect update
    for n in range(1, 3):
        for dts in itertools.product((100, 121, 171, 281, 1000), repeat=n):
            for kind in KINDS:
                for lat in ("default", "zero"):
                    jobs.append((dts, kind, lat, 0, "close-last", None, False))
    for r in core.pmap(_one, jobs):
        rep.add_violations(r["violations"])
        rep.merge_counts(r["counts"])
        if r["outcome"]:
            rep.outcomes.add(r["outcome"])
    rep.need("effects_observed", "never_effective", "executed_on_liquid_book", "executed_on_dry_book", "boundary_cases", "bet_delay_changed_in_flight")
    rep.states = len(jobs)
    rep.transitions = len(jobs)
    rep.traces = len(jobs)
    rep.evaluations = sum(rep.clauses.values())
    rep.nontrivial = len(rep.outcomes)
    rep.sample(dict(zip(("dts", "kind", "latency", "bet_delay", "ip_at", "bet_delay_after", "two_markets"), jobs[len(jobs) // 2])))
    rep.sample(dict(zip(("dts", "kind", "latency", "bet_delay", "ip_at", "bet_delay_after", "two_markets"), jobs[-1])))
    vj = [(k, mv, b, lat, gap) for k in ("place", "replace") for mv in (None, "cur", "bad") for b in ("none", "VER", "SUSOPN") for lat in ("default", "large", "default-async") for gap in (1, 50, 99)]
    for r in core.pmap(_version_one, vj):
        rep.add_violations(r["violations"])
        rep.merge_counts(r["counts"])
    rep.need("version_cases", "version_lapsed", "version_live")
    rep.bounds = dict(spacings_ms=DTS, max_sequence=n_main, latency_configs=list(LAT), request_kinds=KINDS, runs=len(jobs))
    rep.rule = "every spacing sequence of <=%d updates over %s ms (every default latency boundary +-1 ms) x request kind, plus latency configurations zero/large, bet delays 0/1/5 changing at a turn in-play between request and effect, and an event-grouped second market updating in between; distinct_nontrivial = distinct (kind, effect update) vectors" % (n_main, DTS)
    rep.assumptions = [
        "strictly more than the delay (elapsed > delay), as the statement says",
        "when the bet delay changes between request and effect the delay at request time and the new delay are both accepted",
        "fragments carry the publish time of the book they were matched against (the statement mandates the book before the effect update)",
    ]
    return rep.finish()


def replay(rep):
    c = rep["case"]
    if "version" in c:
        r = _version_one(tuple(c["version"]))
        for d in r["violations"]:
            print(d["key"], d["detail"])
        return 1 if r["violations"] else 0
    r = _one((tuple(c["dts"]), c["kind"], c["latency"], c["bet_delay"], c["ip_at"], c["bet_delay_after"], c["two_markets"]))
    for d in r["violations"]:
        print(d["key"], d["detail"])
    return 1 if r["violations"] else 0
