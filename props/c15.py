"""C15 Blotter views are coherent with the orders placed — E1 simx part (2 strategies x 2 clients x
selections x handicaps in one market; placements, replacements, completions, closure)."""
from mc import core
from props import simlife as L, c04, livelife

CLAUSES = {
    "C15.a": "every placed order appears exactly once in the blotter and in each view (bet-id view for replacement/adopted orders)",
    "C15.b": "the live list contains every order that is not complete and loses an order only after it is complete",
    "C15.c": "lookups by order id / bet id return the identical object",
    "C15.d": "status and matched-only filters return precisely the satisfying orders",
}
ENABLED = {"C15"}
SELS = ((1, 0), (2, 0), (1, 1.5))


def alphabet(dt, rich):
    A = [L.tick(dt)]
    for e in ["T21", "T22", "SUS", "RM1", "CL"] + (["IP", "T3", "OPN"] if rich else []):
        A.append(L.tick(dt, e))
    for k in (0, 1):
        for name, over in (("PBn", {}), ("XBp", {}), ("X2", {}), ("PBn", {"hc": 1.5})) + ((("FOK", {}), ("PBv", {}), ("MOC", {})) if rich else ()):
            A.append(L.tick(dt, "Q", [["@", k, L.P(name, **over)]]))
        for i in (0, 1):
            A.append(L.tick(dt, "Q", [["@", k, ["R", i, 2.3]]]))
            A.append(L.tick(dt, "Q", [["@", k, ["C", i, None]]]))
        A.append(L.tick(dt, "Q", [["@", k, ["R", 0, 2.0]]]))
    if not rich:
        # starting-price orders stay live (not complete) until the starting price is reconciled
        A.append(L.tick(dt, "Q", [["@", 0, L.P("MOC")]]))
        A.append(L.tick(dt, "Q", [["@", 1, L.P("LOC")]]))
    A.append(L.tick(dt, "Q", [["@", 0, L.P("PBn")], ["@", 1, L.P("PBn")]]))
    # an order refused through one client (market suspended) is offered again through the other client
    A.append(L.tick(dt, "OPN", [["@", 0, L.P("PBn")]]))
    # an order that is already placed is handed to place_order again (a strategy retry): refused, nothing doubles
    A.append(L.tick(dt, "Q", [["@", 0, ["PX", 0]]]))
    A.append(L.tick(dt, "Q", [["@", 0, ["PA", 0, 1]]]))
    A.append(L.tick(dt, "Q", [["@", 1, ["PA", 0, 0]]]))
    return A


def _run(args):
    hist, cfg = args
    return L.run_history(hist, ENABLED, cfg)


ADOPT_ALPHA = ("close", "open", "bet", "fill")


def _adopt_one(seq):
    """live adoption: bets of this framework's strategy that it does not know locally (placed by an earlier
    instance) are reported by the order stream while the market is open / closed / re-opened: each is adopted
    once, into the market the framework holds, and found by both lookups"""
    import itertools as _it
    from mc import livex
    from flumine import BaseStrategy
    from flumine.order.trade import Trade
    from flumine.order.ordertype import LimitOrder

    mid = "1.100000001"
    w = livex.LiveWorld([], strategies=("alpha",))
    w.start()
    out = []
    counts = {"clause:C15.a": 0, "clause:C15.c": 0, "adoption_states": 0, "adopted_while_closed": 0}
    case = dict(adopt=list(seq))
    try:
        fw, ex = w.framework, w.exchange
        st = list(fw.strategies)[0]
        bets = []
        closed = False
        for ev in seq:
            w.clock_ms += 1000
            w.set_clock()
            if ev in ("close", "open"):
                w.books[mid] = w._make_book(mid, "CLOSED" if ev == "close" else "OPEN")
                w.dispatch(w._book_event(mid))
                closed = ev == "close"
            elif ev == "bet":
                tr = Trade(mid, 1, 0, st)
                o = tr.create_order("BACK", LimitOrder(2.2 + 0.02 * len(bets), 2.0))
                b = ex.new_bet(mid, o.create_place_instruction(), "verif")
                bets.append((o.id, b))
                ex.publish(mid, [b])
                if closed:
                    counts["adopted_while_closed"] += 1
            elif ev == "fill":
                if not bets:
                    continue
                ex.fill(bets[-1][1], 1.0)
            while ex.snap_queue:
                w.do(("D",))
            counts["adoption_states"] += 1
            counts["clause:C15.a"] += 1
            counts["clause:C15.c"] += 1
            m = fw.markets.markets.get(mid)
            key_ = lambda pred: ("live", "adoption", pred, "closed" if closed else "open")
            if m is None:
                if bets:
                    out.append(core.v("C15.a", key_("market-missing"), "after %s the market is not held by the framework" % list(seq), case))
                continue
            held = list(m.blotter)
            if len(held) != len(bets):
                out.append(core.v("C15.a", key_("count"), "after %s: %d order(s) in the market's blotter for %d bet(s) of the strategy at the exchange" % (list(seq), len(held), len(bets)), case))
                break
            for oid, b in bets:
                x = fw.markets.get_order(mid, oid)
                y = fw.markets.get_order_from_bet_id(mid, b.bet_id) if hasattr(fw.markets, "get_order_from_bet_id") else x
                if x is None or str(x.bet_id) != b.bet_id or not any(x is h_ for h_ in held):
                    out.append(core.v("C15.c", key_("lookup"), "after %s: bet %s is not found by its order id in the framework's market" % (list(seq), b.bet_id), case))
                    break
                if abs(x.size_matched - b.sm) > 1e-9:
                    out.append(core.v("C15.a", key_("stale"), "after %s: adopted order of bet %s shows matched %s, exchange %s" % (list(seq), b.bet_id, x.size_matched, b.sm), case))
                    break
            if out:
                break
        if w.handler_exceptions:
            out.append(core.v("C15.a", ("live", "adoption", "exception", "-"), w.handler_exceptions[0][-300:], case))
    finally:
        w.stop()
    return dict(violations=out, counts=counts)


def run(tier):
    rep = core.Report("C15", tier, "E1 simx")
    base = dict(n_strategies=2, n_clients=2, sels=SELS, max_live=3)
    cfgs = [dict(base, name="fast", dt=200, rich=(tier == "thorough")), dict(base, name="slow", dt=100),
            # exposure limits configured: the what-if queries of the exposure control run (and refuse) alongside
            dict(base, name="fast-limits", dt=200, strategy_kw=dict(max_order_exposure=20, max_selection_exposure=8, max_market_exposure=8))]
    c04.explore(rep, ENABLED, alphabet, tier, cfgs, depth_q=3, depth_t=4, dev_k_q=2, dev_k_t=3, horizon=7, run=_run)
    rep.need("replacement_orders_seen", "placed")
    rep.rule = "BFS with dedup + deviation-bounded histories; all blotter views compared with a shadow list of accepted orders after every update and at closure"
    rep.assumptions = ["bet-id view is required only for replacement/adopted orders, as the statement says", "live-mode adoption is covered by the E2 part"]
    import itertools as _it

    aj = [seq for n in range(1, 5 if tier != "thorough" else 6) for seq in _it.product(ADOPT_ALPHA, repeat=n) if "bet" in seq]
    for r in core.pmap(_adopt_one, aj):
        rep.add_violations(r["violations"])
        rep.merge_counts(r["counts"])
        rep.transitions += 1
        rep.traces += 1
    rep.states += len(aj)
    rep.need("adopted_while_closed")
    livelife.explore_live(rep, ENABLED, tier)
    from props import betdaqlife

    betdaqlife.explore_betdaq(rep, ENABLED, tier)  # the same oracles over the Betdaq execution / polling path
    rep.engine = "E1 simx + E2 livex"
    return rep.finish()


def replay(rep):
    c = rep["case"]
    if "adopt" in c:
        r = _adopt_one(tuple(c["adopt"]))
        for d in r["violations"]:
            print(d["key"], d["detail"])
        return 1 if r["violations"] else 0
    if "betdaq" in c:
        from props import betdaqlife

        return betdaqlife.replay_betdaq(c, ENABLED)
    if "path" in c:
        return livelife.replay_live(c, ENABLED)
    r = L.run_history(c["history"], ENABLED, c.get("cfg"))
    for d in r["violations"]:
        print(d["key"], d["detail"])
    return 1 if r["violations"] else 0
