"""C15 Blotter views are coherent with the orders placed — E1 simx part (2 strategies x 2 clients x
selections x handicaps in one market; placements, replacements, completions, closure)."""
from mc import core
from props import simlife as L, c04, livelife

CLAUSES = {
    "C15.a": "every placed order appears exactly once in the blotter and in each view (bet-id view for replacement/adopted orders)",
    "C15.b": "the live list contains every order that is not complete and loses an order only after it is complete",
    "C15.c": "lookups by order id / bet id return the identical object",
    "C15.d": "status and matched-only filters return precisely the satisfying orders",
}
ENABLED = {"C15"}
SELS = ((1, 0), (2, 0), (1, 1.5))


def alphabet(dt, rich):
    A = [L.tick(dt)]
    for e in ["T21", "T22", "SUS", "RM1", "CL"] + (["IP", "T3", "OPN"] if rich else []):
        A.append(L.tick(dt, e))
    for k in (0, 1):
        for name, over in (("PBn", {}), ("XBp", {}), ("X2", {}), ("PBn", {"hc": 1.5})) + ((("FOK", {}), ("PBv", {}), ("MOC", {})) if rich else ()):
            A.append(L.tick(dt, "Q", [["@", k, L.P(name, **over)]]))
        for i in (0, 1):
            A.append(L.tick(dt, "Q", [["@", k, ["R", i, 2.3]]]))
            A.append(L.tick(dt, "Q", [["@", k, ["C", i, None]]]))
        A.append(L.tick(dt, "Q", [["@", k, ["R", 0, 2.0]]]))
    if not rich:
        # starting-price orders stay live (not complete) until the starting price is reconciled
        A.append(L.tick(dt, "Q", [["@", 0, L.P("MOC")]]))
        A.append(L.tick(dt, "Q", [["@", 1, L.P("LOC")]]))
    A.append(L.tick(dt, "Q", [["@", 0, L.P("PBn")], ["@", 1, L.P("PBn")]]))
    # an order refused through one client (market suspended) is offered again through the other client
    A.append(L.tick(dt, "OPN", [["@", 0, L.P("PBn")]]))
    A.append(L.tick(dt, "Q", [["@", 0, ["PA", 0, 1]]]))
    A.append(L.tick(dt, "Q", [["@", 1, ["PA", 0, 0]]]))
    return A


def _run(args):
    hist, cfg = args
    return L.run_history(hist, ENABLED, cfg)


def run(tier):
    rep = core.Report("C15", tier, "E1 simx")
    base = dict(n_strategies=2, n_clients=2, sels=SELS, max_live=3)
    cfgs = [dict(base, name="fast", dt=200, rich=(tier == "thorough")), dict(base, name="slow", dt=100),
            # exposure limits configured: the what-if queries of the exposure control run (and refuse) alongside
            dict(base, name="fast-limits", dt=200, strategy_kw=dict(max_order_exposure=20, max_selection_exposure=8, max_market_exposure=8))]
    c04.explore(rep, ENABLED, alphabet, tier, cfgs, depth_q=3, depth_t=4, dev_k_q=2, dev_k_t=3, horizon=7, run=_run)
    rep.need("replacement_orders_seen", "placed")
    rep.rule = "BFS with dedup + deviation-bounded histories; all blotter views compared with a shadow list of accepted orders after every update and at closure"
    rep.assumptions = ["bet-id view is required only for replacement/adopted orders, as the statement says", "live-mode adoption is covered by the E2 part"]
    livelife.explore_live(rep, ENABLED, tier)
    rep.engine = "E1 simx + E2 livex"
    return rep.finish()


def replay(rep):
    c = rep["case"]
    if "path" in c:
        return livelife.replay_live(c, ENABLED)
    r = L.run_history(c["history"], ENABLED, c.get("cfg"))
    for d in r["violations"]:
        print(d["key"], d["detail"])
    return 1 if r["violations"] else 0
