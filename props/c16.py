"""C16 Reported exposure equals the true worst case — E3 gridx.
Real Blotter + real BetfairOrder objects (live representation via CurrentOrder resources, simulated
representation via the order's simulated book) against refs.ref_selection / ref_market (brute force
over fill subsets and winner sets)."""
import itertools
from fractions import Fraction as F

from mc import core, refs

CLAUSES = {
    "C16.a": "get_exposures worst-case win/lose figures and selection_exposure equal the brute-force worst case",
    "C16.b": "market_exposure equals the worst over every admissible winner set",
    "C16.c": "PENDING/VIOLATION orders are left out; every other order incl. complete matched ones is counted",
    "C16.d": "exclusion / new_order behave exactly like removing / adding the order",
}

MID = "1.100000001"
_S = {}


def _setup(mode):
    key = mode
    if key in _S:
        return _S[key]
    from flumine import BaseStrategy

    st = BaseStrategy(market_filter={"markets": []}, name="c16")
    _S[key] = dict(st=st)
    return _S[key]


# template = (side, kind, split, status) ; kinds: LC (limit classic), LF (limit finest), LL (limit line), LOC, MOC
# (limit price, matched price, ladder); LX: a large order matched at an average price with many decimals (live: the
# exchange reports the exact average; several fills at different prices)
LIMIT_KINDS = {"LC": (2.5, 2.7, "CLASSIC"), "LF": (2.51, 2.63, "FINEST"), "LL": (3.5, 3.5, "LINE_RANGE"), "LX": (3.4, 3.456789, "CLASSIC")}
SPLIT_STATUS = {
    # RESUBMITTED: refused by a control first, then offered again and acknowledged (refused -> pending -> executable)
    "none": ("PENDING", "EXECUTABLE", "CANCELLING", "EXECUTION_COMPLETE", "VIOLATION", "RESUBMITTED"),
    "half": ("EXECUTABLE", "UPDATING", "REPLACING", "EXECUTION_COMPLETE", "VIOLATION"),
    "all": ("EXECUTABLE", "EXECUTION_COMPLETE"),
}
SP_STATUS = ("PENDING", "EXECUTABLE", "EXECUTION_COMPLETE", "VIOLATION")


def templates():
    t = []
    for side in ("BACK", "LAY"):
        for kind in LIMIT_KINDS:
            for split, sts in SPLIT_STATUS.items():
                for s in sts:
                    if kind == "LX" and (split != "all" or s != "EXECUTION_COMPLETE"):
                        continue
                    t.append((side, kind, split, s))
        for kind in ("LOC", "MOC"):
            for s in SP_STATUS:
                t.append((side, kind, "-", s))
    return t


def new_order_templates():
    return [
        ("BACK", "LC", "none", None),
        ("LAY", "LC", "none", None),
        ("LAY", "LF", "none", None),
        ("BACK", "LL", "none", None),
        ("LAY", "LL", "none", None),
        ("BACK", "LOC", "-", None),
        ("LAY", "LOC", "-", None),
        ("BACK", "MOC", "-", None),
        ("LAY", "MOC", "-", None),
    ]


def _drive(o, status):
    if status is None:
        return
    if status == "RESUBMITTED":
        o.violation("refused")
        o.placing()
        o.executable()
        return
    if status == "VIOLATION":
        o.violation("refused")
        return
    o.placing()
    if status == "PENDING":
        return
    o.executable()
    if status == "EXECUTABLE":
        return
    {"CANCELLING": o.cancelling, "UPDATING": o.updating, "REPLACING": o.replacing, "EXECUTION_COMPLETE": o.execution_complete}[status]()


def make(mode, tmpl, sel, size=4.0):
    if tmpl[1] == "LX":
        size = 40.0
    """Build one real order in the given representation + its plain reference record."""
    from flumine.order.trade import Trade
    from flumine.order.ordertype import LimitOrder, LimitOnCloseOrder, MarketOnCloseOrder
    from betfairlightweight.resources.bettingresources import CurrentOrder, LineRangeInfo

    side, kind, split, status = tmpl
    st = _setup(mode)["st"]
    tr = Trade(MID, sel, 0, st)
    if kind in LIMIT_KINDS:
        limit, mprice, ladder = LIMIT_KINDS[kind]
        if side == "LAY" and kind != "LX":
            mprice = round(limit - (mprice - limit), 2) if kind != "LL" else mprice
        kw = {}
        if ladder == "LINE_RANGE":
            kw["line_range_info"] = LineRangeInfo(marketUnit="u", interval=1, minUnitValue=0.5, maxUnitValue=9.5)
        ot = LimitOrder(limit, size, price_ladder_definition=ladder, **kw)
        matched = {"none": 0.0, "half": round(size / 2, 2), "all": size}[split]
        complete = status in ("EXECUTION_COMPLETE", "VIOLATION")
        remaining = 0.0 if status == "EXECUTION_COMPLETE" else round(size - matched, 2)
        frags = []
        if matched:
            if mode == "sim" and split == "all":
                frags = [(mprice, round(matched / 4, 2)), (limit, round(matched - round(matched / 4, 2), 2))]
            else:
                frags = [(mprice, matched)]
        o = tr.create_order(side, ot)
        if mode == "live":
            if status not in (None, "PENDING") or matched:
                avp = 0.0
                if matched:
                    avp = mprice
                co = CurrentOrder(
                    betId="1",
                    averagePriceMatched=avp,
                    bspLiability=0.0,
                    handicap=0,
                    marketId=MID,
                    orderType="LIMIT",
                    persistenceType="LAPSE",
                    placedDate="2023-11-14T22:13:20.000Z",
                    selectionId=sel,
                    side=side,
                    sizeCancelled=round(size - matched - remaining, 2),
                    sizeLapsed=0.0,
                    sizeMatched=matched,
                    sizeRemaining=remaining,
                    sizeVoided=0.0,
                    status="EXECUTION_COMPLETE" if remaining == 0 else "EXECUTABLE",
                    priceSize={"price": limit, "size": size},
                )
                o.update_current_order(co)
        else:
            sim = o.simulated
            for p, s in frags:
                sim._update_matched([0, p, s])
            if status == "EXECUTION_COMPLETE":
                sim.size_cancelled = round(size - matched, 2)
        _drive(o, status)
        ref = refs.RefOrder(side, "LIMIT", kind == "LL", "EXECUTABLE" if status == "RESUBMITTED" else status, status in ("EXECUTION_COMPLETE", "VIOLATION"), frags, remaining, limit, None, (MID, sel, 0))
        return o, ref
    liab = 6.0 if kind == "LOC" else 5.0
    ot = LimitOnCloseOrder(liab, 3.0) if kind == "LOC" else MarketOnCloseOrder(liab)
    o = tr.create_order(side, ot)
    _drive(o, status)
    ref = refs.RefOrder(side, kind, False, status, o.complete, [], 0, None, liab, (MID, sel, 0))
    return o, ref


def _tol(ref_orders, mode="sim"):
    sm = sum((s for r in ref_orders for _, s in r.frags), F(0))
    if mode == "live":
        # the exchange's exact average price is used: only the final 2dp roundings remain
        return F(3, 100)
    return F(5, 1000) * sm + F(2, 100)


def _blotter(orders):
    from flumine.markets.blotter import Blotter

    b = Blotter(MID)
    for o in orders:
        b[o.id] = o
    return b


_POOL = {}


def _pool(mode, copies):
    """copies x every template (real orders, built once per worker; blotters are rebuilt per case)."""
    key = (mode, copies)
    if key not in _POOL:
        T = templates()
        with core.owned_config(simulated=(mode == "sim")):
            _POOL[key] = [[make(mode, t, 1) for t in T] for _ in range(copies)]
            _POOL[(mode, "new")] = [make(mode, t, 1) for t in new_order_templates()]
    return _POOL[key], _POOL[(mode, "new")]


def _close(a, b, tol):
    return abs(F(str(a)) - b) <= tol


def _sel_chunk(args):
    mode, combos = args
    T = templates()
    out = []
    counts = {"clause:C16.a": 0, "clause:C16.c": 0, "clause:C16.d": 0}
    outcomes = set()
    nontrivial = 0
    with core.owned_config(simulated=(mode == "sim")):
        pool, news = _pool(mode, 4)
        st = _setup(mode)["st"]
        lookup = (MID, 1, 0)
        for combo in combos:
            pairs = [pool[k][ti] for k, ti in enumerate(combo)]
            orders = [p[0] for p in pairs]
            rf = [p[1] for p in pairs]
            b = _blotter(orders)
            desc = [T[ti] for ti in combo]

            def chk(clause, what, got_w, got_l, rfs, role):
                ew, el = refs.ref_selection(rfs)
                tol = _tol(rfs, mode)
                for nm, g, e in (("win", got_w, ew), ("lose", got_l, el)):
                    if not _close(g, e, tol):
                        out.append(
                            core.v(
                                clause,
                                (what, role, "under" if F(str(g)) > e else "over"),
                                "%s %s mode=%s orders=%s: profit_if_%s got %s expected %s" % (what, role, mode, desc, nm, g, float(e)),
                                dict(mode=mode, templates=desc, role=role),
                                size=len(desc) * 100 + len(role),
                            )
                        )
                        return False
                return True

            ge = b.get_exposures(st, lookup)
            counts["clause:C16.a"] += 1
            chk("C16.a", "get_exposures", ge["worst_possible_profit_on_win"], ge["worst_possible_profit_on_lose"], rf, "-")
            if any(r.status in ("PENDING", "VIOLATION") for r in rf) or any(r.complete and r.frags for r in rf):
                counts["clause:C16.c"] += 1
            se = b.selection_exposure(st, lookup)
            if not _close(se, refs.ref_selection_exposure(rf), _tol(rf, mode)):
                out.append(core.v("C16.a", ("selection_exposure", "-", "-"), "selection_exposure %s expected %s for %s" % (se, float(refs.ref_selection_exposure(rf)), desc), dict(mode=mode, templates=desc), size=len(desc) * 100))
            outcomes.add((round(ge["worst_possible_profit_on_win"], 2), round(ge["worst_possible_profit_on_lose"], 2)))
            if len({r.side for r in rf if r.status not in ("PENDING", "VIOLATION")}) > 1 or len(rf) > 1:
                nontrivial += 1
            # exclusion of each order in turn
            for i, o in enumerate(orders):
                g = b.get_exposures(st, lookup, exclusion=o)
                counts["clause:C16.d"] += 1
                chk("C16.d", "get_exposures", g["worst_possible_profit_on_win"], g["worst_possible_profit_on_lose"], rf[:i] + rf[i + 1 :], "exclusion")
            # prospective new order
            for (no, nr) in news:
                g = b.get_exposures(st, lookup, new_order=no)
                counts["clause:C16.d"] += 1
                chk("C16.d", "get_exposures", g["worst_possible_profit_on_win"], g["worst_possible_profit_on_lose"], rf + [nr], "new_order")
            # the same order as exclusion and as new order: removed, then added
            for i, o in enumerate(orders[:2]):
                g = b.get_exposures(st, lookup, exclusion=o, new_order=o)
                counts["clause:C16.d"] += 1
                chk("C16.d", "get_exposures", g["worst_possible_profit_on_win"], g["worst_possible_profit_on_lose"], rf[:i] + rf[i + 1 :] + [rf[i]], "exclusion+new_order")
    return dict(violations=_dedup(out), counts=counts, n=len(combos), outcomes=len(outcomes), nontrivial=nontrivial)


def _dedup(vs, per_key=2):
    seen = {}
    out = []
    for d in vs:
        k = tuple(d["key"])
        seen[k] = seen.get(k, 0) + 1
        if seen[k] <= per_key:
            out.append(d)
    return out


# ---- market level -------------------------------------------------------------------
MARKET_MENU = [
    ("BACK", "LC", "none", "EXECUTABLE"),
    ("LAY", "LC", "none", "EXECUTABLE"),
    ("BACK", "LC", "all", "EXECUTION_COMPLETE"),
    ("LAY", "LC", "all", "EXECUTION_COMPLETE"),
    ("LAY", "LC", "half", "EXECUTABLE"),
    ("BACK", "LF", "half", "REPLACING"),
    ("BACK", "LL", "all", "EXECUTABLE"),
    ("LAY", "LOC", "-", "EXECUTABLE"),
    ("BACK", "MOC", "-", "EXECUTABLE"),
    ("LAY", "MOC", "-", "EXECUTION_COMPLETE"),
    ("BACK", "LC", "none", "PENDING"),
    ("LAY", "LC", "half", "VIOLATION"),
]


class _Book:
    def __init__(self, nw, active):
        self.number_of_winners = nw
        self.number_of_active_runners = active


_MP = {}


def _mpool(mode):
    if mode not in _MP:
        with core.owned_config(simulated=(mode == "sim")):
            _MP[mode] = {sel: [[make(mode, t, sel, size=3.0 + sel) for t in MARKET_MENU] for _ in range(2)] for sel in (1, 2, 3)}
            _MP[(mode, "new")] = {sel: [make(mode, t, sel) for t in new_order_templates()[:4]] for sel in (1, 2, 3)}
    return _MP[mode], _MP[(mode, "new")]


def _market_chunk(args):
    mode, combos = args
    out = []
    counts = {"clause:C16.b": 0, "clause:C16.d": 0}
    outcomes = set()
    with core.owned_config(simulated=(mode == "sim")):
        pool, news = _mpool(mode)
        st = _setup(mode)["st"]
        for (ca, cb, cc) in combos:
            pairs = []
            for sel, combo in ((1, ca), (2, cb), (3, cc)):
                for k, ti in enumerate(combo):
                    pairs.append(pool[sel][k][ti])
            orders = [p[0] for p in pairs]
            rf = [p[1] for p in pairs]
            b = _blotter(orders)
            desc = dict(sel1=[MARKET_MENU[i] for i in ca], sel2=[MARKET_MENU[i] for i in cb], sel3=[MARKET_MENU[i] for i in cc])
            sels_with = sorted({r.lookup[1] for r in rf})

            def ref_total(rfs, nw, active):
                per = []
                ss = sorted({r.lookup[1] for r in rfs})
                for s in ss:
                    per.append(refs.ref_selection([r for r in rfs if r.lookup[1] == s]))
                return refs.ref_market(per, active - len(ss), nw), sum((_tol([r for r in rfs if r.lookup[1] == s], mode) for s in ss), F(0)) + F(1, 100)

            for nw in (1, 2, 3):
                for extra in (0, 1, 3):
                    active = len(sels_with) + extra
                    mb = _Book(nw, active)
                    got = b.market_exposure(st, mb)
                    counts["clause:C16.b"] += 1
                    exp, tol = ref_total(rf, nw, active)
                    outcomes.add(round(got, 2))
                    if not _close(got, exp, tol):
                        out.append(
                            core.v(
                                "C16.b",
                                ("market_exposure", "-", "under" if F(str(got)) > exp else "over"),
                                "market_exposure nw=%d active=%d %s got %s expected %s" % (nw, active, desc, got, float(exp)),
                                dict(mode=mode, nw=nw, active=active, **desc),
                                size=len(orders) * 100 + nw,
                            )
                        )
            # exclusion / new order at market level (nw=1, one extra runner)
            mb = _Book(1, len(sels_with) + 1)
            for i, o in enumerate(orders):
                got = b.market_exposure(st, mb, exclusion=o)
                counts["clause:C16.d"] += 1
                rfs = rf[:i] + rf[i + 1 :]
                # the excluded order's runner still counts as a runner with bets in flumine's universe
                exp, tol = ref_total(rfs, 1, len(sels_with) + 1)
                if not _close(got, exp, tol):
                    out.append(core.v("C16.d", ("market_exposure", "exclusion", "under" if F(str(got)) > exp else "over"), "market_exposure exclusion=%d %s got %s expected %s" % (i, desc, got, float(exp)), dict(mode=mode, exclusion=i, **desc), size=len(orders) * 100))
                got = b.market_exposure(st, mb, exclusion=o, new_order=o)
                counts["clause:C16.d"] += 1
                exp, tol = ref_total(rf, 1, len(sels_with) + 1)
                if not _close(got, exp, tol):
                    out.append(core.v("C16.d", ("market_exposure", "exclusion+new_order", "under" if F(str(got)) > exp else "over"), "market_exposure exclusion=new_order=%d %s got %s expected %s" % (i, desc, got, float(exp)), dict(mode=mode, both=i, **desc), size=len(orders) * 100))
            for sel in (1, 3):
                for (no, nr) in news[sel]:
                    got = b.market_exposure(st, mb, new_order=no)
                    counts["clause:C16.d"] += 1
                    ss = sorted({r.lookup[1] for r in rf + [nr]})
                    exp, tol = ref_total(rf + [nr], 1, len(sels_with) + 1)
                    if not _close(got, exp, tol):
                        out.append(core.v("C16.d", ("market_exposure", "new_order", "under" if F(str(got)) > exp else "over"), "market_exposure new_order sel=%d %s got %s expected %s" % (sel, desc, got, float(exp)), dict(mode=mode, new_sel=sel, **desc), size=len(orders) * 100))
    return dict(violations=_dedup(out), counts=counts, n=len(combos), outcomes=len(outcomes))


def run(tier):
    rep = core.Report("C16", tier, "E3 gridx")
    T = templates()
    kmax = 4 if tier == "thorough" else 3
    total_blotters = 0
    outcomes = 0
    for mode in ("live", "sim"):
        combos = []
        for k in range(0, kmax + 1):
            if k == 4 and mode == "sim":
                continue  # sim representation: <= 3 per selection (same arithmetic path; halves the cost)
            combos.extend(itertools.combinations_with_replacement(range(len(T)), k))
        step = 1500
        jobs = [(mode, combos[i : i + step]) for i in range(0, len(combos), step)]
        for r in core.pmap(_sel_chunk, jobs, chunk=1):
            rep.add_violations(r["violations"])
            rep.merge_counts(r["counts"])
            total_blotters += r["n"]
            outcomes += r["outcomes"]
            rep.nontrivial += r["nontrivial"]
        rep.sample({"mode": mode, "selection_blotter": [T[i] for i in combos[len(combos) // 2]]})
        # market level
        M = range(len(MARKET_MENU))
        a_sets = [c for k in (0, 1, 2) for c in itertools.combinations_with_replacement(M, k)]
        b_sets = [c for k in (0, 1) for c in itertools.combinations_with_replacement(M, k)]
        mcombos = [(a, b, c) for a in a_sets for b in b_sets for c in b_sets]
        jobs = [(mode, mcombos[i : i + 400]) for i in range(0, len(mcombos), 400)]
        for r in core.pmap(_market_chunk, jobs, chunk=1):
            rep.add_violations(r["violations"])
            rep.merge_counts(r["counts"])
            total_blotters += r["n"]
            outcomes += r["outcomes"]
        rep.sample({"mode": mode, "market_blotter": [[MARKET_MENU[i] for i in s] for s in mcombos[len(mcombos) // 3]]})
    rep.count("blotters", total_blotters, mandatory=True)
    rep.states = total_blotters
    rep.transitions = sum(rep.clauses.values())
    rep.traces = rep.transitions
    rep.evaluations = rep.transitions
    rep.outcomes = set(range(outcomes))
    # end-to-end Betdaq leg: real BetdaqExecution / polling against an API double, every interleaving of the scripts'
    # requests, replies, exchange-side fills and polls; at every stable point the reported exposure is compared with
    # the worst case over the exchange's own records
    from props import betdaqlife

    betdaqlife.explore_betdaq(rep, {"C16"}, tier)
    rep.engine = "E3 gridx + E2 livex (Betdaq leg)"
    rep.need("betdaq_exposure_points")
    rep.rule = (
        "every multiset of <= %d orders per selection from %d real-order templates (side x {classic,finest,line,LOC,MOC} x "
        "matched split x status), in live (CurrentOrder) and simulated representation; each order in turn as exclusion, 9 "
        "templates as new_order, same order as both; market level: <=2/<=1/<=1 orders on 3 selections x winners 1..3 x extra "
        "active runners 0/1/3. non-trivial = blotters with >1 order or both sides" % (kmax, len(T))
    )
    rep.bounds = dict(max_orders_per_selection=kmax, templates=len(T), market_menu=len(MARKET_MENU), selections=3, winners=[1, 2, 3])
    rep.assumptions = [
        "tolerance 0.005*size_matched+0.02 per selection (flumine works on the 2dp average price and rounds twice)",
        "market level: every runner carrying bets is active (the API does not say which runners are active)",
        "simulated representation sets fills through SimulatedOrder._update_matched (the order's own book-keeping entry point)",
    ]
    return rep.finish()


def replay(rep):
    if "betdaq" in rep["case"]:
        from props import betdaqlife

        return betdaqlife.replay_betdaq(rep["case"], {"C16"})
    case = rep["case"]
    mode = case["mode"]
    T = templates()
    if "templates" in case:
        combo = tuple(T.index(tuple(t)) for t in case["templates"])
        r = _sel_chunk((mode, [combo]))
    else:
        idx = lambda l: tuple(MARKET_MENU.index(tuple(t)) for t in l)
        r = _market_chunk((mode, [(idx(case["sel1"]), idx(case["sel2"]), idx(case["sel3"]))]))
    for d in r["violations"]:
        print(d["key"], d["detail"])
    return 1 if r["violations"] else 0
