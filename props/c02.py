"""C02 Refused requests change nothing; accepted requests are sent exactly once — E1 simx (request
sequences directly on the market and batched in transactions, every control made to refuse by a real
cause, forced requests) + packaging enumeration (Betfair / simulated / Betdaq limits, market versions)."""
import itertools

from mc import core, simx
from props import simlife as L, c04

CLAUSES = {
    "C02.a": "a refused request sends nothing and leaves order, trade, blotter and runner accounting untouched (a refused NEW order is only marked VIOLATION and stays out of the blotter)",
    "C02.b": "every accepted request reaches the execution layer exactly once",
    "C02.c": "packages hold at most the per-call limit, one market version, the matching kind, orders in request order",
    "C02.d": "nothing is left queued once the transaction ends",
    "C02.e": "a forced request skips the controls but nothing else",
}

T = L.TEMPLATES
REQ = {
    "good": L.P("PBn"),
    "good2": L.P("PL"),
    "good3": L.P("P2"),
    "offladder": ["P", dict(T["PBn"], price=2.03)],
    "badsize": ["P", dict(T["PBn"], size=0.001)],
    "toobig": ["P", dict(T["PBn"], size=6.0)],  # above max_order_exposure 5
    "loc": L.P("LOC"),
    "forced-offladder": ["P", dict(T["PBn"], price=2.03, force=True)],
    "forced-good": ["P", dict(T["PBn"], force=True)],
    "mv": L.P("PBc"),
    "same-trade": ["P", dict(T["PBn"], trade=0, live_only=False)],  # a further order of the first trade (e.g. its closing leg)
}


def make_spy():
    from flumine.controls import BaseControl

    class Spy(BaseControl):
        """counts control invocations (installed as first trading control and as a client control); can refuse
        its j-th call the documented way (BaseControl._on_error -> ControlError)"""

        NAME = "VERIF_SPY"

        def __init__(self, flumine, *a, raise_at=None, **k):
            super().__init__(flumine)
            self.calls = 0
            self.raise_at = raise_at

        def _validate(self, order, package_type):
            self.calls += 1
            if self.raise_at is not None and self.calls == self.raise_at:
                self._on_error(order, "spy refuses call %d" % self.calls)

    return Spy


_SPY = None


def Spy(*a, **k):
    global _SPY
    if _SPY is None:
        _SPY = make_spy()
    return _SPY(*a, **k)


class Hooks(L.Life):
    def __init__(self, hist, cfg):
        super().__init__({"C02"}, hist, extra={"cfg": cfg})
        self.accepted = []  # (id(order), kind, forced)
        self.pkgs = []  # (kind, [ids], market_version, n)
        self.spies = []
        self.counts.update({"refused_requests": 0, "accepted_requests": 0, "packages": 0, "forced_accepted": 0, "refused_new_orders": 0, "refused_inflight_or_live": 0, "transactions_with_execute": 0})
        self.keep = []

    def package(self, w, p):
        # what the execution layer works on is the package's public view at hand-over (`orders` leaves out orders
        # marked VIOLATION), not the list the package was built from
        self.pkgs.append((p.package_type.name, [id(o) for o in p.orders], p._market_version, p))
        self.c("packages")
        self.c("clause:C02.c")
        limit = type(p).order_limit(p.package_type)
        if len(p._orders) > limit:
            self.v("C02.c", (p.package_type.name, "over limit"), "package of %d orders, limit %d" % (len(p._orders), limit))
        if len(p._orders) == 0:
            self.v("C02.c", (p.package_type.name, "empty"), "empty package handed to the execution layer")

    def pre_action(self, w, st, market, act, o):
        self.spy_before = [s.calls for s in self.spies]
        if o is None:
            self.pre = None
            return
        self.keep.append(o)
        self.pre = (L.snapshot(w, o), None)

    def post_action(self, w, st, market, act, o, out):
        if o is None or self.pre is None:
            return
        if act[0] == "XC":
            # the order belongs to another client than the transaction: refused whether forced or not
            before = self.pre[0]
            self.pre = None
            self.c("clause:C02.e")
            self.c("cross_client_requests")
            kind = {"C": "cancel", "U": "update", "R": "replace"}[act[1]]
            if out is True:
                self.v("C02.e", (kind, "cross-client-accepted", "forced" if act[5] else "unforced"), "%s %s of an order of client 0 accepted through the transaction of client %d" % ("forced" if act[5] else "unforced", kind, act[4]))
            else:
                d = L.snap_diff(before, L.snapshot(w, o))
                if d:
                    self.v("C02.a", (kind, "cross-client", before[0], d[0]), "refused cross-client %s changed %s" % (kind, d))
            return
        before = self.pre[0]
        self.pre = None
        k = {"P": "place", "PA": "place", "C": "cancel", "U": "update", "R": "replace"}[act[0]]
        forced = (act[0] == "P" and act[1].get("force")) or (act[0] in ("C", "U") and len(act) > 3 and act[3]) or (act[0] == "R" and len(act) > 4 and act[4])
        spy_delta = sum(s.calls for s in self.spies) - sum(self.spy_before)
        st_before = before[0]
        if out is True:
            self.accepted.append((id(o), {"P": "PLACE", "PA": "PLACE", "C": "CANCEL", "U": "UPDATE", "R": "REPLACE"}[act[0]], bool(forced)))
            if act[0] == "PA":
                self.c("accepted_after_refusal")
            self.c("accepted_requests")
            self.c("clause:C02.e")
            if forced:
                self.c("forced_accepted")
                if spy_delta:
                    self.v("C02.e", (k, "controls-called"), "forced %s still ran %d control call(s)" % (k, spy_delta))
            elif self.spies and not spy_delta:
                self.v("C02.e", (k, "controls-skipped"), "unforced %s was accepted without consulting the controls" % k)
            return
        refused = out is False or (isinstance(out, str) and out.startswith("raise:"))
        if not refused:
            if isinstance(out, str) and out.startswith("raise!"):
                self.v("C02.a", (k, "exception", st_before, out.split(":")[1]), "request raised %s" % out)
            return
        self.c("refused_requests")
        self.c("clause:C02.a")
        after = L.snapshot(w, o)
        d = L.snap_diff(before, after)
        who = L._viol_control(o) if out is False else "OrderUpdateError"
        if out is not False and isinstance(out, str):
            who = out.split(":")[1]
        if act[0] in ("P", "PA"):
            self.c("refused_new_orders")
            allowed = {"status", "status_log", "complete", "violation_msg"}
            bad = [f for f in d if f not in allowed]
            if after[0] not in ("VIOLATION", None) and out is False:
                bad.append("status-not-violation")
            if after[7] or after[8]:
                bad.append("in-blotter")
            if bad:
                self.v("C02.a", (k, who, str(st_before), bad[0]), "refused new order changed %s" % bad)
        else:
            self.c("refused_inflight_or_live")
            if d:
                self.v("C02.a", (k, who, str(st_before), d[0]), "refused %s on an order in status %s changed %s" % (k, st_before, d))
        # nothing may be sent for a refused request: checked at the end of the update (clause b)

    def tick_end(self, w, market, mb):
        # b) accepted requests == packaged (order, kind) pairs, each exactly once; c) request order inside packages
        self.c("clause:C02.b")
        want = sorted((i, k) for i, k, f in self.accepted)
        got = sorted((i, kind) for kind, ids, mv, p in self.pkgs for i in ids)
        if want != got:
            missing = [x for x in want if x not in got]
            extra = [x for x in got if x not in want]
            dup = len(got) != len(set(got))
            pred = "duplicate" if dup else ("missing" if missing else "extra")
            kind = (missing or extra or got)[0][1]
            self.v("C02.b", (kind, pred), "accepted requests %d, packaged %d (missing %d, not accepted %d)" % (len(want), len(got), len(missing), len(extra)))
        pos = {}
        for n, (i, k, f) in enumerate(self.accepted):
            pos.setdefault((i, k), n)
        for kind, ids, mv, p in self.pkgs:
            seq = [pos.get((i, kind), -1) for i in ids]
            if seq != sorted(seq):
                self.v("C02.c", (kind, "order"), "orders inside the package are not in request order: %s" % seq)
        # d) nothing left queued in the transactions used during this update
        for t in w.tx_seen:
            self.c("clause:C02.d")
            try:
                left = len(t._pending_place) + len(t._pending_cancel) + len(t._pending_update) + len(t._pending_replace)
                flag = t._pending_orders
            except AttributeError:
                continue
            if left or flag:
                self.v("C02.d", ("transaction", "leftover"), "transaction ended with %d queued request(s), _pending_orders=%s" % (left, flag))
        w.tx_seen = []
        if w.tick_no == self.n_ticks:
            try:
                self.canon = simx.canon_world(w)
            except simx.CanonUnavailable:
                self.canon = None

    # lifecycle samplers of Life are not needed here
    def after_mw(self, w, market):
        pass

    def orders(self, w, st, market, orders):
        pass

    def closed_end(self, w, market, mb):
        pass

    def status(self, w, o, prev, new, site):
        pass


def tx(reqs, ex_at=()):
    return ["TX", [list(r) for r in reqs], list(ex_at)]


def alphabet(dt, rich):
    A = [L.tick(dt)]
    for e in ["SUS", "OPN", "T21"] + (["RM1", "CL"] if rich else []):
        A.append(L.tick(dt, e))
    for k in ["good", "good2", "offladder", "badsize", "toobig", "forced-offladder", "forced-good", "mv", "same-trade"] + (["loc", "good3"] if rich else []):
        A.append(L.tick(dt, "Q", [REQ[k]]))
    for i in (0, 1):
        A.append(L.tick(dt, "Q", [["C", i, None]]))
        A.append(L.tick(dt, "Q", [["C", i, 2.0]]))
        A.append(L.tick(dt, "Q", [["U", i, "PERSIST"]]))
        A.append(L.tick(dt, "Q", [["R", i, 2.3]]))
    A.append(L.tick(dt, "Q", [["C", 0, None, True]]))  # forced cancel
    A.append(L.tick(dt, "Q", [["R", 0, 2.03]]))  # replace to an off-ladder price
    # batched in one transaction, explicit execute() at various positions
    A.append(L.tick(dt, "Q", [tx([REQ["good"], REQ["good2"]])]))
    A.append(L.tick(dt, "Q", [tx([REQ["good"], REQ["offladder"], REQ["good2"]], [1])]))
    A.append(L.tick(dt, "Q", [tx([REQ["good"], ["C", 0, None]], [1, 2])]))
    A.append(L.tick(dt, "Q", [tx([["C", 0, None], ["U", 1, "PERSIST"], REQ["good"]], [0])]))
    A.append(L.tick(dt, "Q", [tx([["R", 0, 2.3], ["C", 1, 2.0], REQ["toobig"]], [2, 3])]))
    A.append(L.tick(dt, "Q", [tx([["C", 0, None], ["C", 0, None]])]))  # second one must be rejected
    A.append(L.tick(dt, "Q", [tx([], [0])]))
    A.append(L.tick(dt, "SUS", [tx([REQ["good"], ["C", 0, None]])]))
    # the strategy's own code raises inside the `with` block after requests were accepted: the transaction still ends
    A.append(L.tick(dt, "Q", [tx([REQ["good"], ["P", dict(T["PBn"], trade=0, live_only=False)]])]))  # two legs of one trade in one batch
    # a new order refused while the market is suspended is offered again once the cause has gone (and while it has not)
    A.append(L.tick(dt, "OPN", [["PA", 0, 0]]))
    A.append(L.tick(dt, "Q", [["PA", 0, 0]]))
    A.append(L.tick(dt, "Q", [["TXR", [list(REQ["good"])]]]))
    A.append(L.tick(dt, "Q", [["TXR", [["C", 0, None], list(REQ["good2"])]]]))
    return A


_TX = False


def _install_tx_tracking():
    global _TX
    if _TX:
        return
    _TX = True
    from flumine.markets.market import Market

    orig = Market.transaction

    def transaction(self, *a, **k):
        t = orig(self, *a, **k)
        w = simx._CUR
        if w is not None and hasattr(w, "tx_seen"):
            w.tx_seen.append(t)
        return t

    Market.transaction = transaction


def _run(args):
    hist, cfg = args
    if cfg.get("loglevel") and not cfg.get("_quiet"):
        # the same run with the flumine loggers raised (a refusal must not depend on its warning being logged)
        import logging

        lg = logging.getLogger("flumine")
        saved = (lg.level, logging.root.manager.disable)
        lg.setLevel(cfg["loglevel"])
        logging.disable(cfg["loglevel"] - 1)
        try:
            rq = _run((hist, dict(cfg, _quiet=True)))
        finally:
            lg.setLevel(saved[0])
            logging.disable(saved[1])
        # differential: every request is answered and packaged exactly as with the default log level
        rn = _run((hist, {k: v for k, v in cfg.items() if k != "loglevel"}))
        if rq["outcome"] != rn["outcome"]:
            rq["violations"] = list(rq["violations"]) + [core.v("C02.a", ("any", "log-level", "-", "decision-differs"), "with the flumine loggers at level %s the requests of this history are answered / packaged differently than at the default level" % cfg["loglevel"], {"history": hist, "cfg": {k: v for k, v in cfg.items() if not k.startswith("_")}}, size=L._hsize(hist))]
        return rq
    ticks, scripts = L.split_history(hist, 1)
    spec = simx.MarketSpec(book0=cfg.get("book0") or L.BOOK0)
    h = Hooks(hist, cfg)
    skw = dict(max_order_exposure=cfg.get("max_order", 5), max_selection_exposure=None, max_live_trade_count=cfg.get("max_live", 3))
    L._install_created_tracking()
    _install_tx_tracking()

    def setup(w):
        fw = w.framework
        spy = Spy(fw)
        fw.trading_controls.insert(0, spy)
        h.spies.append(spy)
        cspy = Spy(fw, raise_at=cfg.get("client_control_raises_at"))
        w.clients[0].trading_controls.append(cspy)
        h.spies.append(cspy)

    w = simx.SimWorld([(spec, ticks)], [dict(script=scripts[0], kw=skw)], hooks=h, client_kw=dict(transaction_limit=cfg.get("transaction_limit", 5000)), flumine_setup=setup, n_clients=cfg.get("n_clients", 1))
    w.tx_seen = []
    w.run()
    if w.run_exception is not None:
        h.v("C02.a", ("run", "exception", type(w.run_exception).__name__, "-"), "run raised %r\n%s" % (w.run_exception, getattr(w, "run_traceback", "")[-400:]))
    outcome = core.stable_hash([[str(e[3]) for e in st.log] for st in w.strategies] + [[k, len(ids)] for k, ids, mv, p in h.pkgs])
    return dict(canon=hash(h.canon) if h.canon is not None else None, violations=L._dedup(h.viol), counts=h.counts, outcome=outcome)


# ---- packaging -----------------------------------------------------------------------
def _pack_sim(args):
    kind, n, pattern = args
    """n requests of one kind in ONE transaction with market versions following `pattern`"""
    mvs = [pattern[i % len(pattern)] for i in range(n)]
    hist = []
    place = [["P", dict(sel=1 + (i % 2), side="LAY", price=1.5, size=2.0, mv=mvs[i] if kind == "place" else None)] for i in range(n)]
    if kind == "place":
        hist = [L.tick(200, "Q", [tx(place)]), L.tick(200)]
    else:
        req = {"cancel": lambda i: ["C", i, None], "update": lambda i: ["U", i, "PERSIST"], "replace": lambda i: ["R", i, 1.6, mvs[i]]}[kind]
        hist = [L.tick(200, "Q", [tx(place)]), L.tick(200), L.tick(200, "Q", [tx([req(i) for i in range(n)])]), L.tick(200)]
    ticks, scripts = L.split_history(hist, 1)
    spec = simx.MarketSpec(book0=L.BOOK0)
    pk = []

    class H:
        def package(self, w, p):
            pk.append(p)

    L._install_created_tracking()
    w = simx.SimWorld([(spec, ticks)], [dict(script=scripts[0], kw=dict(max_order_exposure=None, max_selection_exposure=None, max_live_trade_count=10**6, max_trade_count=10**9))], hooks=H())
    w.run()
    return _judge_packages(w, pk, kind, n, mvs, "simulated", dict(kind=kind, n=n, pattern=list(pattern), world="simulated"), {"place": 200, "cancel": 60, "update": 60, "replace": 60}[kind])


def _judge_packages(w, pk, kind, n, mvs, world, case, limit):
    out = []
    counts = {"clause:C02.b": 1, "clause:C02.c": 0, "packaging_cases": 1, "chunked_cases": 0, "multi_version_cases": 0}
    if getattr(w, "run_exception", None) is not None:
        out.append(core.v("C02.b", (kind.upper(), "exception"), "run raised %r" % (w.run_exception,), case))
        return dict(violations=out, counts=counts, outcome="exc")
    st = w.strategies[0]
    orders = list(getattr(st, "_created", []))[:n]
    target = [p for p in pk if p.package_type.name == kind.upper()]
    ids = [id(o) for p in target for o in p._orders]
    exp = [id(o) for o in orders]
    if sorted(ids) != sorted(exp):
        dup = len(ids) != len(set(ids))
        out.append(core.v("C02.b", (kind.upper(), "duplicate" if dup else ("missing" if len(ids) < len(exp) else "extra")), "%s: %d requests accepted, %d orders in %d packages" % (world, len(exp), len(ids), len(target)), case))
    idx = {id(o): i for i, o in enumerate(orders)}
    if n > limit:
        counts["chunked_cases"] += 1
    if len(set(mvs)) > 1 and kind in ("place", "replace"):
        counts["multi_version_cases"] += 1
    for p in target:
        counts["clause:C02.c"] += 1
        if len(p._orders) > limit:
            out.append(core.v("C02.c", (kind.upper(), "over limit"), "%s: package of %d orders, limit %d" % (world, len(p._orders), limit), case))
        if kind in ("place", "replace"):
            vs = {mvs[idx[id(o)]] if not isinstance(mvs[idx[id(o)]], str) else mvs[idx[id(o)]] for o in p._orders if id(o) in idx}
            if len(vs) > 1:
                out.append(core.v("C02.c", (kind.upper(), "mixed version"), "%s: package mixes market versions %s" % (world, vs), case))
            want_mv = next(iter(vs)) if vs else None
            got_mv = p._market_version
            if want_mv == "cur":
                ok = got_mv is not None
            elif want_mv == "bad":
                ok = got_mv is not None
            else:
                ok = got_mv == want_mv
            if not ok:
                out.append(core.v("C02.c", (kind.upper(), "wrong version"), "%s: package version %r for orders requested with %r" % (world, got_mv, want_mv), case))
        seq = [idx.get(id(o), -1) for o in p._orders]
        if seq != sorted(seq):
            out.append(core.v("C02.c", (kind.upper(), "order"), "%s: package order %s" % (world, seq[:10]), case))
    return dict(violations=L._dedup(out), counts=counts, outcome="%s:%s:%d:%d" % (world, kind, n, len(target)))


def _pack_betdaq(args):
    """Betdaq limits (10/10/50): requests through a real Transaction of a real BetdaqClient market"""
    kind, n = args
    from flumine import BaseStrategy
    from flumine.clients import BetdaqClient
    from flumine.order.trade import Trade
    from flumine.order.ordertype import BetdaqLimitOrder
    from flumine.order.order import BetdaqOrder
    from mc import livex
    import betfairlightweight

    case = dict(kind=kind, n=n, world="betdaq")
    LiveFlumine, _ = livex.live_classes()
    with core.owned_config(simulated=False):
        client = BetdaqClient(None, username="bdq")
        fw = LiveFlumine(client)
        pk = []
        fw.process_order_package = lambda p: pk.append(p)
        st = BaseStrategy(market_filter={}, name="bdq", max_order_exposure=None, max_selection_exposure=None, max_live_trade_count=10**6)
        fw.strategies(st, fw.clients, fw)
        # a market with an OPEN book
        w0 = livex.LiveWorld([])
        w0.clock_ms = livex.T0
        cache = w0._make_book("1.100000001")
        mb = cache.create_resource(1, snap=True)
        from flumine.markets.market import Market

        m = Market(fw, "1.100000001", mb)
        fw.markets.add_market("1.100000001", m)
        orders = []
        outs = []
        with m.transaction(client=client) as t:
            for i in range(n):
                tr = Trade("1.100000001", 1 + (i % 2), 0, st)
                o = tr.create_betdaq_order("BACK", BetdaqLimitOrder(2.0, 2.0, betdaq_runner_id=111 + i, runner_reset_count=0, withdrawal_sequence_number=0))
                orders.append(o)
                outs.append(t.place_order(o))
        if kind != "place":
            for i, o in enumerate(orders):
                o.bet_id = 9000 + i
                o.executable()
            pk.clear()
            with m.transaction(client=client) as t:
                for o in orders:
                    if kind == "cancel":
                        outs.append(t.cancel_order(o))
                    else:
                        outs.append(t.update_order(o, size_delta=1.0, new_price=2.2))

        class W:
            run_exception = None
            strategies = [type("S", (), {"_created": orders})()]

        limit = {"place": 10, "cancel": 10, "update": 50}[kind]
        r = _judge_packages(W, pk, kind, n, [None] * n, "betdaq", case, limit)
        if not all(x is True for x in outs):
            r["violations"].append(core.v("C02.b", (kind.upper(), "refused"), "betdaq request refused: %s" % [x for x in outs if x is not True][:3], case))
        return r


_BDQ_REQ = {
    "C": ("cancel", dict()),
    "Cp": ("cancel", dict(size_reduction=1.0)),
    "U1": ("update", dict(size_delta=-1.0, new_price=2.2)),
    "U2": ("update", dict(size_delta=5.0, new_price=3.0)),
    "R": ("replace", dict(new_price=2.4)),
}


def _betdaq_refusals(args):
    """Betdaq: every sequence of <= 3 cancel / partial cancel / update / replace requests on an order in each
    state (no bet id yet, executable, complete), issued directly on the market or batched in one transaction.
    A refused request (False or an OrderUpdateError / ControlError raised to the caller) leaves everything as
    it was; the instructions finally delivered are those of the accepted requests, once each."""
    state0, seq, batched = args
    from flumine import BaseStrategy
    from flumine.clients import BetdaqClient
    from flumine.exceptions import FlumineException
    from flumine.order.trade import Trade
    from flumine.order.ordertype import BetdaqLimitOrder
    from flumine.markets.market import Market
    from mc import livex

    case = dict(world="betdaq-refusals", state=state0, seq=list(seq), batched=batched)
    out = []
    counts = {"clause:C02.a": 0, "clause:C02.b": 0, "betdaq_refused": 0, "betdaq_accepted": 0}
    LiveFlumine, _ = livex.live_classes()
    with core.owned_config(simulated=False):
        client = BetdaqClient(None, username="bdq")
        fw = LiveFlumine(client)
        pk = []
        fw.process_order_package = lambda p: pk.append(p)
        st = BaseStrategy(market_filter={}, name="bdq", max_order_exposure=None, max_selection_exposure=None, max_live_trade_count=10)
        fw.strategies(st, fw.clients, fw)
        w0 = livex.LiveWorld([])
        w0.clock_ms = livex.T0
        cache = w0._make_book("1.100000001")
        m = Market(fw, "1.100000001", cache.create_resource(1, snap=True))
        fw.markets.add_market("1.100000001", m)
        tr = Trade("1.100000001", 1, 0, st)
        o = tr.create_betdaq_order("BACK", BetdaqLimitOrder(2.0, 4.0, betdaq_runner_id=111, runner_reset_count=0, withdrawal_sequence_number=0))
        if m.place_order(o) is not True:
            raise core.HarnessError("betdaq placement refused in the set-up")
        if state0 != "nobet":
            o.bet_id = 9000
            o.responses.placed()
            o.executable()
            if state0 == "complete":
                o.execution_complete()
                m.blotter.complete_order(o)
        pk.clear()

        class W:
            framework = fw

        accepted = []
        t = m.transaction(client=client) if batched else None
        if t is not None:
            t.__enter__()
        for name in seq:
            kind, kw = _BDQ_REQ[name]
            before = L.snapshot(W, o)
            size0 = o.order_type.size
            npk = len(pk)
            try:
                target = t if t is not None else m
                res = getattr(target, kind + "_order")(o, **kw)
            except FlumineException as e:
                res = "raise:" + type(e).__name__
            except Exception as e:  # not a refusal: a defect
                out.append(core.v("C02.a", (kind, "betdaq", state0, "exception"), "%s raised %r" % (name, e), case))
                break
            counts["clause:C02.a"] += 1
            if res is True:
                counts["betdaq_accepted"] += 1
                accepted.append((kind, dict(o.update_data)))
            else:
                counts["betdaq_refused"] += 1
                after = L.snapshot(W, o)
                if after != before or o.order_type.size != size0:
                    out.append(core.v("C02.a", (kind, "betdaq", state0, ",".join(L.snap_diff(before, after)) or "size"), "refused %s (%r) on a %s order after %r changed %s" % (name, res, state0, [k for k, _ in accepted], L.snap_diff(before, after)), case))
                if len(pk) != npk:
                    out.append(core.v("C02.a", (kind, "betdaq", state0, "sent"), "refused %s produced a package" % name, case))
        if t is not None:
            t.__exit__(None, None, None)
        counts["clause:C02.b"] += 1
        sent = [(p.package_type.name.lower(), x) for p in pk for x in p.orders]
        if [k for k, _ in sent] != [k for k, _ in accepted] or any(x is not o for _, x in sent):
            out.append(core.v("C02.b", ("betdaq", state0, "delivery"), "accepted %r but delivered %r" % ([k for k, _ in accepted], [k for k, _ in sent]), case))
        else:
            # the update instruction finally built carries the payload of the accepted request
            for (kind, ud), p in zip(accepted, pk):
                if kind == "update":
                    ins = p.update_instructions
                    exp = dict(BetId=9000, DeltaStake=ud.get("DeltaStake"), Price=ud.get("Price"))
                    if len(ins) != 1 or any(ins[0].get(k) != v for k, v in exp.items()):
                        out.append(core.v("C02.b", ("betdaq", state0, "payload"), "accepted update %r delivered as %r" % (exp, ins), case))
        if t is not None and (t._pending_place or t._pending_cancel or t._pending_update or t._pending_replace):
            out.append(core.v("C02.b", ("betdaq", state0, "left-queued"), "requests left queued after the transaction ended", case))
    return dict(violations=out, counts=counts)


def run(tier):
    rep = core.Report("C02", tier, "E1 simx")
    thorough = tier == "thorough"
    cfgs = [
        dict(name="default", dt=200),
        dict(name="slow", dt=100),
        dict(name="txn-limit-2", dt=200, transaction_limit=2),
        dict(name="client-control-raises-2", dt=200, client_control_raises_at=2),
        dict(name="live-count-1", dt=200, max_live=1),
    ] + ([dict(name="client-control-raises-1", dt=200, client_control_raises_at=1), dict(name="client-control-raises-3", dt=100, client_control_raises_at=3)] if thorough else [])
    for cfg in cfgs:
        cfg["rich"] = thorough
        c04.explore(rep, {"C02"}, alphabet, tier, [cfg], depth_q=4 if cfg["name"] in ("default", "slow") else 3, depth_t=4, dev_k_q=0, dev_k_t=0, horizon=0, run=_run)
    # two clients: requests on an order of client 0 through the transaction of client 1, forced and unforced
    def alpha2(dt, rich):
        A = [L.tick(dt), L.tick(dt, "Q", [REQ["good"]]), L.tick(dt, "T21")]
        for kind, arg in (("C", None), ("U", "PERSIST"), ("R", 2.3)):
            for force in (False, True):
                A.append(L.tick(dt, "Q", [["XC", kind, 0, arg, 1, force]]))
        return A

    c04.explore(rep, {"C02"}, alpha2, tier, [dict(name="two-clients", dt=200, n_clients=2, rich=False)], depth_q=3, depth_t=3, dev_k_q=0, dev_k_t=0, horizon=0, run=_run)
    rep.need("cross_client_requests")
    # a runner without lay offers (one empty ladder side); the flumine loggers raised to CRITICAL
    nolay = {k: (dict(v, atl=[]) if k == 1 else v) for k, v in L.BOOK0.items()}
    for cfg in (dict(name="no-lay-offers", dt=200, book0=nolay), dict(name="quiet-logging", dt=200, loglevel=50)):
        cfg["rich"] = False
        c04.explore(rep, {"C02"}, alphabet, tier, [cfg], depth_q=2, depth_t=3, dev_k_q=0, dev_k_t=0, horizon=0, run=_run)
    # packaging
    pj = []
    patterns = [(None,), ("cur",), (None, "cur"), ("cur", None, None), ("cur", "bad"), (None, "cur", "bad", None, "cur", "cur")]
    for kind, limit in (("place", 200), ("cancel", 60), ("update", 60), ("replace", 60)):
        for n in (0, 1, limit - 1, limit, limit + 1, 2 * limit + 1):
            for pat in (patterns if kind in ("place", "replace") else patterns[:1]):
                pj.append((kind, n, pat))
    for r in core.pmap(_pack_sim, pj, chunk=1):
        rep.add_violations(r["violations"])
        rep.merge_counts(r["counts"])
        rep.outcomes.add(r["outcome"])
    bj = [(k, n) for k, lim in (("place", 10), ("cancel", 10), ("update", 50)) for n in (0, 1, lim - 1, lim, lim + 1, 2 * lim + 1)]
    for r in core.pmap(_pack_betdaq, bj, nworkers=1):
        rep.add_violations(r["violations"])
        rep.merge_counts(r["counts"])
        rep.outcomes.add(r["outcome"])
    rep.transitions += len(pj) + len(bj)
    rep.traces += len(pj) + len(bj)
    rep.states += len(pj) + len(bj)
    rep.need("refused_requests", "accepted_requests", "accepted_after_refusal", "packages", "forced_accepted", "refused_new_orders", "refused_inflight_or_live", "packaging_cases", "chunked_cases", "multi_version_cases")
    rj = []
    names = list(_BDQ_REQ)
    for st0 in ("nobet", "executable", "complete"):
        for n in (1, 2, 3):
            for seq in itertools.product(names, repeat=n):
                for batched in (False, True):
                    rj.append((st0, seq, batched))
    for r in core.pmap(_betdaq_refusals, rj):
        rep.add_violations(r["violations"])
        rep.merge_counts(r["counts"])
        rep.transitions += 1
        rep.traces += 1
    rep.states += len(rj)
    rep.need("betdaq_refused", "betdaq_accepted")
    rep.bounds.update(betdaq_refusal_sequences=len(rj))
    rep.bounds.update(packaging=dict(sim_cases=len(pj), betdaq_cases=len(bj), n=["0", "1", "limit-1", "limit", "limit+1", "2*limit+1"], version_patterns=len(patterns)))
    rep.rule = "BFS with canonical-state dedup over histories of requests issued directly and batched in transactions (explicit execute() at several positions, a request refused in the middle, the same order twice), with every default control made to refuse by a real cause (off-ladder price, bad size, exposure, market suspended, runner accounting, transaction limit) and a custom client control raising ControlError at its j-th call, forced variants; packaging: n requests of each kind in one transaction for n around the per-call limits (200/60/60/60; Betdaq 10/10/50) x market-version patterns"
    rep.assumptions = [
        "a refused request is judged on the public snapshot (status, status log, update data, persistence, price, trade status/log, blotter and live-list membership, runner context, complete flag, violation message)",
        "ExecutionValidation (order stream down) is a live-only cause and is not driven here",
        "clause d reads Transaction's pending lists defensively; a request left queued also shows as missing from the packages (clause b)",
    ]
    return rep.finish()


def replay(rep):
    c = rep["case"]
    if "history" in c:
        r = _run((c["history"], c["cfg"]))
    elif c.get("world") == "betdaq-refusals":
        r = _betdaq_refusals((c["state"], tuple(c["seq"]), c["batched"]))
    elif c.get("world") == "betdaq":
        r = _pack_betdaq((c["kind"], c["n"]))
    else:
        r = _pack_sim((c["kind"], c["n"], tuple(c["pattern"])))
    for d in r["violations"]:
        print(d["key"], d["detail"])
    return 1 if r["violations"] else 0
