"""C06 Passive liquidity is never double counted; queue position is honoured — E1 simx.
Exhaustive product of resting-order configurations x traded-volume update sequences, judged against an
independent ledger of cumulative traded volume rebuilt from the generated stream lines (refs A5)."""
import itertools
import json
from fractions import Fraction as F

from mc import core, simx
from props import simlife as L

CLAUSES = {
    "C06.a": "a lone resting order is filled by exactly min(size, max(0, eligible traded/2 since arrival - queue ahead)), at its limit, nothing before arrival",
    "C06.b": "per update and isolation domain the fills are a feasible flow from that update's eligible half-volumes (Hall's condition); nobody exceeds its own cumulative bound",
    "C06.c": "same-side unqueued orders: the worse-priced one is filled only if the better-priced one has nothing left",
    "C06.d": "with strategy isolation on, each strategy's fills equal its fills when run alone",
}

PRICES = (2.0, 2.1, 2.2)
SIZE = 5.0


def book_for(mode, q):
    """BACK mode: best back 1.9 (so BACK orders at 2.0-2.2 rest); queue q on the lay ladder at each price.
    LAY mode: best lay 2.3; queue q on the back ladder. MIXED: no queues, both sides rest."""
    if mode == "BACK":
        atl = [[p, q] for p in PRICES if q] + [[2.5, 10]]
        return {1: {"atb": [[1.9, 10]], "atl": atl, "trd": [[2.1, 40]]}, 2: {"atb": [[3.0, 10]], "atl": [[3.2, 10]]}}
    if mode == "LAY":
        atb = [[p, q] for p in PRICES if q] + [[1.5, 10]]
        return {1: {"atb": atb, "atl": [[2.3, 10]], "trd": [[2.1, 40]]}, 2: {"atb": [[3.0, 10]], "atl": [[3.2, 10]]}}
    return {1: {"atb": [[1.9, 10]], "atl": [[2.3, 10]], "trd": [[2.1, 40]]}, 2: {"atb": [[3.0, 10]], "atl": [[3.2, 10]]}}


def update_options(rich):
    opts = [["T", 1, []]]  # unchanged ladder
    for p in PRICES:
        for v in (4, 12):
            opts.append(["T", 1, [[p, v]]])
    for a, b in itertools.combinations(PRICES, 2):
        for v in (4, 12):
            opts.append(["T", 1, [[a, v], [b, v]]])
    opts.append(["TA", 1, [[2.1, 30]]])  # cumulative volume goes DOWN (then later growth is counted from there)
    # amounts whose halves are not whole numbers: the queue ahead shrinks by exactly that much, no rounding
    opts.append(["T", 1, [[2.1, 2.6]]])
    opts.append(["T", 1, [[2.0, 1.4], [2.2, 3.4]]])
    if rich:
        opts.append(["T", 1, [[2.0, 4], [2.1, 12], [2.2, 4]]])
        opts.append(["T", 1, [[1.9, 12], [2.3, 12]]])  # outside every limit on one side
    return opts


def order_configs(mode):
    """list of order lists; order = (side, price, strategy index, late?)"""
    out = []
    sides = {"BACK": ("BACK",), "LAY": ("LAY",), "MIXED": ("BACK", "LAY")}[mode]
    singles = [(s, p) for s in sides for p in PRICES]
    for o in singles:
        out.append([(o[0], o[1], 0, False)])
        out.append([(o[0], o[1], 0, True)])
    for a, b in itertools.combinations_with_replacement(singles, 2):
        out.append([(a[0], a[1], 0, False), (b[0], b[1], 0, False)])
        out.append([(a[0], a[1], 0, False), (b[0], b[1], 1, False)])
        out.append([(a[0], a[1], 0, False), (b[0], b[1], 0, True)])
    if mode != "MIXED":
        for a, b, c in itertools.combinations_with_replacement(singles, 3):
            out.append([(a[0], a[1], 0, False), (b[0], b[1], 0, False), (c[0], c[1], 0, False)])
            out.append([(a[0], a[1], 0, False), (b[0], b[1], 1, False), (c[0], c[1], 0, False)])
    return out


class Hooks:
    def __init__(self):
        self.per_update = []  # list of {id(order): [frags...]} at each tick_end

    def tick_end(self, w, market, mb):
        self.per_update.append({id(o): [tuple(m) for m in o.simulated.matched] for o in market.blotter})


def _ledger(lines, sel=1):
    """Per update: {price: eligible capacity = (positive increase of cumulative traded volume)/2}."""
    last = {}
    caps = []
    for n, ln in enumerate(lines):
        d = json.loads(ln)
        cur = {}
        for mc in d["mc"]:
            for rc in mc.get("rc", []):
                if rc["id"] == sel and not rc.get("hc") and "trd" in rc:
                    for p, s in rc["trd"]:
                        cur[p] = s
        cap = {}
        for p, s in cur.items():
            if p in last:
                inc = F(str(s)) - F(str(last[p]))
                if inc > 0:
                    cap[p] = inc / 2
            else:
                cap[p] = F(str(s)) / 2
            last[p] = s
        caps.append(cap if n > 0 else {})  # the initial image is history, not new volume
    return caps


def _eligible(side, limit, price):
    return price >= limit if side == "BACK" else price <= limit


# the same scenarios at the short end of the ladder, where neighbouring ticks are a penny apart (1.12 / 1.13 / 1.14)
PM = {2.0: 1.12, 2.1: 1.13, 2.2: 1.14, 1.9: 1.1, 2.3: 1.16, 2.5: 1.2, 1.5: 1.05}


def _map_prices(obj):
    if isinstance(obj, float) or (isinstance(obj, int) and not isinstance(obj, bool)):
        return PM.get(obj, obj)
    return obj


def _map_levels(levels):
    return [[PM.get(p, p), z] for p, z in levels]


def _run_world(mode, q, orders, seq, isolation, only_strategy=None, variant=None):
    if variant == "low-prices":
        bk = book_for(mode, q)
        book0 = {k: {side: _map_levels(lv) for side, lv in v.items()} if k == 1 else v for k, v in bk.items()}
        spec = simx.MarketSpec(book0=book0)
    elif variant == "other-line-first":
        # the same selection id is also offered on another handicap line, listed BEFORE the line the orders are on,
        # with nothing queued there: the queue ahead is the one of the order's own runner
        bk = book_for(mode, q)
        book0 = {(1, -0.5): {"atb": [[1.5, 10]], "atl": [[2.5, 10]], "trd": [[2.1, 40]]}, (1, 0): bk[1], (2, 0): bk[2]}
        spec = simx.MarketSpec(book0=book0, sels=((1, -0.5), (1, 0), (2, 0)), market_type="ASIAN_HANDICAP")
        # the trading happens on the orders' own line
        seq = [([e[0], "1:0"] + list(e[2:])) if e[0] in ("T", "TA", "B") and e[1] == 1 else e for e in seq]
    else:
        spec = simx.MarketSpec(book0=book_for(mode, q))
    ticks = [[200, e] for e in seq] + [[200, ["Q"]]]
    if variant == "queue-shrinks-on-arrival" and mode != "MIXED" and q:
        # the update on which the orders are acknowledged also shows a smaller queue at their prices: the queue
        # ahead is the one of the book the placement executed against (the previous one)
        side = "atl" if mode == "BACK" else "atb"
        far = [[2.5, 10]] if mode == "BACK" else [[1.5, 10]]
        ticks[0] = [ticks[0][0], ["M", [ticks[0][1], ["B", 1, side, [[p, 1] for p in PRICES] + far]]]]
    if variant == "suspended-reopened":
        # after the first trading update the market is suspended (new version) and re-opened (new version): persisted
        # orders keep resting, and the volume queued ahead of them keeps its place too
        ticks = ticks[:1] + [[200, ["SUS"]], [200, ["OPN"]]] + ticks[1:]
    if variant == "other-runner-between":
        # runner 2 gets the same book as runner 1, so that an order at the same price rests there too
        b1 = book_for(mode, q)[1]
        spec = simx.MarketSpec(book0={1: b1, 2: {k: [list(x) for x in v] for k, v in b1.items()}})
    scripts = [dict(), dict()]
    index = []
    for n, (side, price, sidx, late) in enumerate(orders):
        if only_strategy is not None and sidx != only_strategy:
            continue
        if variant == "replaced":
            # placed far from the market first, then moved to its price by a replace (in flight for 280 ms): the
            # replacement joins the queue at that price like a new order
            far = 2.5 if side == "BACK" else 1.5
            k_ = len(scripts[sidx].get((0, 0), []))
            scripts[sidx].setdefault((0, 0), []).append(["P", dict(sel=1, side=side, price=far, size=SIZE)])
            scripts[sidx].setdefault((0, 1), []).append(["R", k_, price])
            index.append(n)
            continue
        scripts[sidx].setdefault((0, 1 if late else 0), []).append(["P", dict(sel=1, side=side, price=price, size=SIZE, pers="PERSIST" if variant == "suspended-reopened" else "LAPSE")])
        index.append(n)
        if variant == "other-runner-between" and n == 0:
            # the same strategy's order on ANOTHER runner, same side and price, placed between its orders on
            # runner 1 (nothing trades on runner 2): the runner-1 orders still share runner 1's traded volume
            scripts[sidx][(0, 0)].append(["P", dict(sel=2, side=side, price=price, size=SIZE)])
    skw = dict(max_order_exposure=None, max_selection_exposure=None, max_live_trade_count=10)
    h = Hooks()
    L._install_created_tracking()
    w = simx.SimWorld([(spec, ticks)], [dict(script=scripts[k], kw=dict(skw), name="S%d" % k, client=(k if variant == "two-clients" else 0)) for k in range(2)], hooks=h, cfg=dict(simulated_strategy_isolation=isolation), n_clients=2 if variant == "two-clients" else 1)
    w.early_user_middleware = variant == "two-clients"
    w.run()
    lines, pts = spec.gen(ticks)
    return w, h, lines, pts


def _one(args):
    mode, q, orders, seq, isolation = args[:5]
    variant = args[5] if len(args) > 5 else None
    args_case = (mode, q, orders, seq, isolation, variant)
    if variant == "low-prices":
        orders = [(sd, PM[p], i, l) for sd, p, i, l in orders]
        seq = [[e[0], e[1], _map_levels(e[2])] + list(e[3:]) if e[0] in ("T", "TA") else e for e in seq]
    w, h, lines, pts = _run_world(mode, q, orders, seq, isolation, variant=variant)
    out = []
    counts = {"clause:C06.a": 0, "clause:C06.b": 0, "clause:C06.c": 0, "clause:C06.d": 0, "competing_updates": 0, "queue_cleared": 0, "lone_fills": 0, "priority_decisions": 0}
    case = dict(mode=args_case[0], queue=q, orders=[list(o) for o in args_case[2]], updates=args_case[3], isolation=isolation, variant=variant)
    if w.run_exception is not None:
        out.append(core.v("C06.a", (isolation, len(orders), "exception", "-"), "run raised %r" % (w.run_exception,), case))
        return dict(violations=out, counts=counts, outcome=None)
    caps = _ledger(lines)
    # map orders: strategy k's created orders in creation order
    objs = []
    cursor = {0: 0, 1: 0}
    created = {k: [o for o in getattr(w.strategies[k], "_created", []) if o.selection_id == 1] for k in (0, 1)}
    # creation order inside a strategy: update-0 orders first, then late ones
    per_s = {0: [], 1: []}
    for n, (side, price, sidx, late) in enumerate(orders):
        per_s[sidx].append((late, n))
    order_obj = {}
    for sidx in (0, 1):
        seqn = sorted(per_s[sidx], key=lambda t: (t[0], t[1]))
        for (late, n), o in zip(seqn, created[sidx]):
            # "replaced": the order of interest is the replacement (last order of the trade), if it exists yet
            order_obj[n] = (o.trade.orders[-1] if len(o.trade.orders) > 1 else None) if variant == "replaced" else o
    order_obj = {n: o for n, o in order_obj.items() if o is not None}
    nk = len(orders)
    ckey = lambda pred, ou: (isolation, min(nk, 3), pred, ou)
    cum = {n: F(0) for n in order_obj}
    E = {n: F(0) for n in order_obj}
    sig = []
    for u, snap in enumerate(h.per_update):
        cap = caps[u] if u < len(caps) else {}
        fills = {}
        for n, o in order_obj.items():
            side, price, sidx, late = orders[n]
            arrival = 3 if variant == "replaced" else (2 if late else 1)
            fr = snap.get(id(o))
            if fr is None:
                continue
            tot = sum((F(str(s)) for _, _, s in fr), F(0))
            f = tot - cum[n]
            fills[n] = f
            # fragments at the limit price, stamped with this update's publish time
            for (pt, p, s) in fr:
                if p != price:
                    out.append(core.v("C06.a", ckey("fragment price", "-"), "passive fill at %s for an order at %s" % (p, price), case))
            if u < arrival and tot > 0:
                out.append(core.v("C06.a", ckey("before arrival", "over"), "order filled %s before it arrived (update %d)" % (float(tot), u), case))
            if u >= arrival:
                E[n] += sum((c for p, c in cap.items() if _eligible(side, price, p)), F(0))
            cum[n] = tot
            bound = min(F(str(SIZE)), max(F(0), E[n] - F(str(q if mode != "MIXED" else 0))))
            counts["clause:C06.b"] += 1
            if tot > bound + F(1, 200):
                out.append(core.v("C06.b", ckey("cumulative bound", "over"), "order %d (%s %s) filled %s > bound %s (eligible %s, queue %s) at update %d" % (n, side, price, float(tot), float(bound), float(E[n]), q, u), case))
            if nk == 1:
                counts["clause:C06.a"] += 1
                if abs(tot - bound) > F(1, 200):
                    out.append(core.v("C06.a", ckey("lone formula", "over" if tot > bound else "under"), "lone %s %s: filled %s, formula %s (eligible %s, queue %s) at update %d" % (side, price, float(tot), float(bound), float(E[n]), q, u), case))
                if tot > 0:
                    counts["lone_fills"] += 1
                if q and tot > 0:
                    counts["queue_cleared"] += 1
        # Hall's condition per isolation domain
        domains = {}
        for n in fills:
            domains.setdefault(orders[n][2] if isolation else 0, []).append(n)
        for dom, ns in domains.items():
            active = [n for n in ns if fills[n] > 0]
            if len([n for n in ns if (u >= (2 if orders[n][3] else 1))]) >= 2 and cap:
                counts["competing_updates"] += 1
            for r in range(1, len(ns) + 1):
                for X in itertools.combinations(ns, r):
                    counts["clause:C06.b"] += 1
                    need = sum((fills[n] for n in X), F(0))
                    have = sum((c for p, c in cap.items() if any(_eligible(orders[n][0], orders[n][1], p) for n in X)), F(0))
                    if need > have + F(1, 200):
                        out.append(core.v("C06.b", ckey("Hall", "over"), "update %d: orders %s took %s out of eligible %s (caps %s)" % (u, list(X), float(need), float(have), {k: float(v) for k, v in cap.items()}), case))
            # priority between same-side unqueued orders
            for a, b in itertools.permutations(ns, 2):
                sa, pa, _, la = orders[a]
                sb, pb, _, lb = orders[b]
                if sa != sb or pa == pb:
                    continue
                better = (pa < pb) if sa == "BACK" else (pa > pb)
                if not better:
                    continue
                arrived = u >= (2 if la else 1) and u >= (2 if lb else 1)
                unq = (mode == "MIXED" or q == 0)
                if arrived and unq:
                    counts["clause:C06.c"] += 1
                    if fills[b] > 0:
                        counts["priority_decisions"] += 1
                        if cum[a] < F(str(SIZE)):
                            out.append(core.v("C06.c", ckey("priority", "-"), "update %d: %s order at %s got %s while the better-priced order at %s still has %s left" % (u, sb, pb, float(fills[b]), pa, float(F(str(SIZE)) - cum[a])), case))
        sig.append(tuple(sorted((n, float(f)) for n, f in fills.items())))
    # d) isolation: each strategy alone gets the same fills
    if isolation and len({o[2] for o in orders}) == 2:
        for sidx in (0, 1):
            w2, h2, _, _ = _run_world(mode, q, orders, seq, True, only_strategy=sidx, variant=variant)
            counts["clause:C06.d"] += 1
            a = [[tuple(m) for m in o.simulated.matched] for o in getattr(w.strategies[sidx], "_created", [])]
            b = [[tuple(m) for m in o.simulated.matched] for o in getattr(w2.strategies[sidx], "_created", [])]
            if a != b:
                out.append(core.v("C06.d", ckey("isolation", "-"), "strategy %d fills differ alone vs together: %s vs %s" % (sidx, b, a), case))
    return dict(violations=_dedup(out), counts=counts, outcome=core.stable_hash(sig))


def _dedup(vs, per_key=1):
    seen, out = {}, []
    for d in vs:
        k = tuple(d["key"])
        seen[k] = seen.get(k, 0) + 1
        if seen[k] <= per_key:
            out.append(d)
    return out


def run(tier):
    rep = core.Report("C06", tier, "E1 simx")
    thorough = tier == "thorough"
    opts = update_options(thorough)
    maxlen = 3 if thorough else 2
    seqs = [list(s) for n in range(1, maxlen + 1) for s in itertools.product(opts, repeat=n)]
    jobs = []
    for mode in ("BACK", "LAY", "MIXED"):
        for q in ((0, 2, 6) if mode != "MIXED" else (0,)):
            for orders in order_configs(mode):
                if thorough and len(orders) == 3 and q == 2:
                    continue
                use = seqs if (len(orders) <= 2 or not thorough) else [s for s in seqs if len(s) <= 2]
                for seq in use:
                    for iso in (True, False):
                        if not iso and len(orders) == 1 and len(seq) > 2:
                            continue  # lone orders without strategy isolation: the shorter sequences only
                        jobs.append((mode, q, orders, seq, iso))
    # set-up variants: two clients with a user middleware registered before the second client; queue shrinking on
    # the very update that acknowledges the orders
    vseqs = [s for s in seqs if len(s) <= 2]
    for mode in ("BACK", "LAY"):
        for q in (0, 2):
            for orders in order_configs(mode):
                if len(orders) != 2 or any(o[3] for o in orders) or orders[0][2] != orders[1][2]:
                    continue
                for seq in vseqs:
                    for iso in (True, False):
                        jobs.append((mode, q, orders, seq, iso, "other-runner-between"))
    for variant in ("two-clients", "queue-shrinks-on-arrival", "suspended-reopened", "other-line-first"):
        for mode in ("BACK", "LAY"):
            for q in (2, 6):
                for orders in order_configs(mode)[:14]:
                    if variant in ("queue-shrinks-on-arrival", "suspended-reopened") and any(o[3] for o in orders):
                        continue  # a late order legitimately sees the smaller queue of the book before ITS arrival
                    for seq in vseqs:
                        jobs.append((mode, q, orders, seq, True, variant))
    # orders that reach their price by a replace (two quiet updates first: the replace is in flight for 280 ms)
    quiet = ["T", 1, []]
    for mode in ("BACK", "LAY"):
        for q in (2, 6):
            for orders in order_configs(mode)[:14]:
                if any(o[3] for o in orders) or len({o[2] for o in orders}) > 1:
                    continue
                for seq in vseqs:
                    jobs.append((mode, q, orders, [quiet, quiet] + list(seq), True, "replaced"))
    # the short end of the ladder (priority between neighbouring penny ticks): unqueued orders, both isolation modes
    for orders in order_configs("MIXED") + order_configs("BACK")[:20] + order_configs("LAY")[:20]:
        if any(o[3] for o in orders):
            continue
        mode_ = "MIXED" if len({o[0] for o in orders}) == 2 else orders[0][0]
        for seq in vseqs:
            for iso in (True, False):
                jobs.append((mode_, 0, orders, seq, iso, "low-prices"))
    if thorough:
        # length-4 sequences for lone orders and pairs over a reduced option set
        small = [o for o in opts if len(o[2]) <= 1][:5]
        for seq in itertools.product(small, repeat=4):
            for mode, q in (("BACK", 6), ("LAY", 2), ("MIXED", 0)):
                for orders in order_configs(mode)[:8]:
                    jobs.append((mode, q, orders, list(seq), True))
    for r in core.pmap(_one, jobs):
        rep.add_violations(r["violations"])
        rep.merge_counts(r["counts"])
        if r["outcome"]:
            rep.outcomes.add(r["outcome"])
    rep.need("competing_updates", "queue_cleared", "lone_fills", "priority_decisions")
    rep.states = len(jobs)
    rep.transitions = len(jobs)
    rep.traces = len(jobs)
    rep.evaluations = sum(rep.clauses.values())
    rep.nontrivial = len(rep.outcomes)
    rep.sample(dict(zip(("mode", "queue", "orders", "updates", "isolation"), jobs[len(jobs) // 2])))
    rep.sample(dict(zip(("mode", "queue", "orders", "updates", "isolation"), jobs[-1])))
    rep.bounds = dict(prices=PRICES, queues=[0, 2, 6], max_orders=3, update_options=len(opts), max_updates=maxlen, runs=len(jobs))
    rep.rule = "product of {side mode} x queue at arrival x every multiset of <=3 resting orders (1-2 strategies, one possibly arriving an update later) x every sequence of <=%d traded-volume updates from %d options (one or two levels, unchanged ladder, decreasing volume) x isolation on/off; distinct_nontrivial = distinct fill vectors" % (maxlen, len(opts))
    rep.assumptions = [
        "volume of the update at which the order is acknowledged counts as traded after arrival (update granularity)",
        "the exchange reports both sides of a trade: capacity = positive increase of cumulative traded volume / 2; a decrease is ignored and later growth counted from the decreased value",
        "simulation_available_prices=False",
    ]
    return rep.finish()


def replay(rep):
    c = rep["case"]
    r = _one((c["mode"], c["queue"], [tuple(o) for o in c["orders"]], c["updates"], c["isolation"], c.get("variant")))
    for d in r["violations"]:
        print(d["key"], d["detail"])
    return 1 if r["violations"] else 0
