"""C19 Order references are unique, valid and round-trip — E3 gridx (strategy names x separators x
id sources, complete grids) + E2 (references replayed through the real order-stream processing of a
second framework instance)."""
import datetime as _dt
import itertools
import string
import threading

from mc import core, livex, simx

CLAUSES = {
    "C19.a": "every reference is at most 32 characters of the exchange's character set for every strategy name and permitted separator; invalid separators are rejected when set",
    "C19.b": "references are unique within a run and splitting a reference recovers the strategy and the order; an update is never attributed to another order or strategy; unknown strategies are ignored",
}

# Betfair: "CustomerRef can contain: upper/lower chars, digits, chars : - . _ + * : ; ~ only"
VALID = set(string.ascii_letters) | set(string.digits) | set("-._+*:;~")
ALPHA = ["a", "Z", "0", "-", " ", "é", "漢", "\0"]


def names():
    out = [""]
    for n in (1, 2):
        for t in itertools.product(ALPHA, repeat=n):
            out.append("".join(t))
    out += ["x" * 13, "y" * 32, "z" * 1000, "strategy-with-a-long-name-é漢", "ExampleStrategy"]
    return out


def seps():
    out = [chr(i) for i in range(128)] + ["é", "漢", "£", "", "--", "ab", "-_", " -", None]
    return out


def _mk(strategy, sep=None, use_ctor=True):
    from flumine.order.trade import Trade
    from flumine.order.ordertype import LimitOrder

    tr = Trade("1.100000001", 1, 0, strategy)
    if sep is None:
        return tr.create_order("BACK", LimitOrder(2.0, 2.0))
    if use_ctor:
        return tr.create_order("BACK", LimitOrder(2.0, 2.0), sep=sep)
    o = tr.create_order("BACK", LimitOrder(2.0, 2.0))
    o.sep = sep
    return o


def _grid_chunk(name_list):
    from flumine import BaseStrategy
    from flumine.utils import STRATEGY_NAME_HASH_LENGTH

    out = []
    counts = {"clause:C19.a": 0, "clause:C19.b": 0, "valid_seps_accepted": 0, "invalid_seps_rejected": 0}
    for name in name_list:
        st = BaseStrategy(market_filter={"markets": []}, name=name)
        for sep in seps():
            if sep is None:
                continue
            for use_ctor in (True, False):
                counts["clause:C19.a"] += 1
                valid = isinstance(sep, str) and len(sep) == 1 and sep in VALID
                try:
                    o = _mk(st, sep, use_ctor)
                    ok = True
                except ValueError:
                    ok = False
                except Exception as e:
                    out.append(core.v("C19.a", ("sep exception", type(e).__name__), "sep %r raised %r" % (sep, e), dict(name=name, sep=sep)))
                    continue
                if ok and not valid:
                    out.append(core.v("C19.a", ("sep accepted", "ctor" if use_ctor else "assign"), "invalid separator %r accepted (strategy %r)" % (sep, name[:20]), dict(name=name[:40], sep=sep, ctor=use_ctor)))
                    continue
                if not ok and valid:
                    out.append(core.v("C19.a", ("sep rejected", "ctor" if use_ctor else "assign"), "valid separator %r rejected" % (sep,), dict(name=name[:40], sep=sep, ctor=use_ctor)))
                    continue
                if not ok:
                    counts["invalid_seps_rejected"] += 1
                    continue
                counts["valid_seps_accepted"] += 1
                ref = o.customer_order_ref
                if len(ref) > 32:
                    out.append(core.v("C19.a", ("length", "-"), "reference %r has %d characters (strategy %r)" % (ref, len(ref), name[:20]), dict(name=name[:40], sep=sep)))
                bad = [c for c in ref if c not in VALID]
                if bad:
                    out.append(core.v("C19.a", ("charset", "-"), "reference %r contains %r" % (ref, bad), dict(name=name[:40], sep=sep)))
                # b) parse as the framework does: fixed-length hash, one separator character, then the id
                counts["clause:C19.b"] += 1
                h, oid = ref[:STRATEGY_NAME_HASH_LENGTH], ref[STRATEGY_NAME_HASH_LENGTH + 1 :]
                if h != st.name_hash or oid != o.id:
                    out.append(core.v("C19.b", ("parse strategy" if h != st.name_hash else "parse order", "-"), "reference %r parses to (%r, %r), expected (%r, %r)" % (ref, h, oid, st.name_hash, o.id), dict(name=name[:40], sep=sep)))
    return dict(violations=_dedup(out), counts=counts)


class _FakeUUID:
    def __init__(self, t):
        self.time = t


def _ids_job(args):
    mode, n = args
    from flumine import BaseStrategy, config
    import flumine.order.order as oo

    out = []
    counts = {"clause:C19.a": 0, "clause:C19.b": 0, "orders_created": 0}
    st = BaseStrategy(market_filter={"markets": []}, name="ids")
    orders = []
    if mode == "loop":
        orders = [_mk(st) for _ in range(n)]
    elif mode == "simclock":
        from flumine.simulation.utils import SimulatedDateTime

        sd = SimulatedDateTime()
        with sd:
            sd(_dt.datetime(2023, 11, 14, 22, 13, 20))  # frozen simulated clock
            orders = [_mk(st) for _ in range(n)]
    elif mode == "threads":
        res = [[] for _ in range(4)]

        def work(k):
            res[k] = [_mk(st) for _ in range(n // 4)]

        ts = [threading.Thread(target=work, args=(k,)) for k in range(4)]
        for t in ts:
            t.start()
        for t in ts:
            t.join()
        orders = [o for r in res for o in r]
    elif mode == "coarse-clock":
        # every readable wall clock stands still while the orders are created (a coarse / frozen / stepped-back
        # system clock): ids stay unique (uuid1 guarantees it; a plain clock reading does not)
        import time as _time

        saved = (_time.time, _time.time_ns, _time.monotonic, _time.monotonic_ns, _time.perf_counter_ns)
        t0, t0n = _time.time(), _time.time_ns()
        _time.time, _time.time_ns = (lambda: t0), (lambda: t0n)
        try:
            orders = [_mk(st) for _ in range(min(n, 2000))]
        finally:
            _time.time, _time.time_ns = saved[0], saved[1]
    elif mode == "seam":
        # id source seam: boundary timestamps (17 and 18 digit values; 19 digits only occur after year 4700)
        real = getattr(oo, "uuid", None)
        if real is None:
            counts["id_seam_not_evaluated"] = 1
            return dict(violations=out, counts=counts)

        class Shim:
            def __init__(self):
                self.vals = iter([10**16, 10**17 - 1, 10**17, 137000000000000000, 10**18 - 2, 10**18 - 1])

            def uuid1(self):
                return _FakeUUID(next(self.vals))

            def __getattr__(self, k):
                return getattr(real, k)

        oo.uuid = Shim()
        try:
            orders = [_mk(st) for _ in range(6)]
        finally:
            oo.uuid = real
    counts["orders_created"] += len(orders)
    ids = [o.id for o in orders]
    refs = [o.customer_order_ref for o in orders]
    counts["clause:C19.b"] += 1
    if len(set(ids)) != len(ids):
        out.append(core.v("C19.b", ("unique id", mode), "%d duplicate order ids among %d orders created (%s)" % (len(ids) - len(set(ids)), len(ids), mode), dict(mode=mode)))
    if len(set(refs)) != len(set(ids)):
        out.append(core.v("C19.b", ("unique ref", mode), "distinct ids but %d distinct references for %d ids" % (len(set(refs)), len(set(ids))), dict(mode=mode)))
    for o in orders:
        counts["clause:C19.a"] += 1
        r = o.customer_order_ref
        if len(r) > 32 or any(c not in VALID for c in r) or not o.id.isdigit():
            out.append(core.v("C19.a", ("length" if len(r) > 32 else "charset", mode), "reference %r (id %r) has %d characters" % (r, o.id, len(r)), dict(mode=mode, id=o.id)))
            break
    return dict(violations=_dedup(out), counts=counts)


def _roundtrip(args):
    """references produced by instance 1 come back from the exchange into instance 2 (same strategies by
    name, plus one it does not know): adoption into the right strategy, updates attributed to that order only."""
    own, sep = args[:2]
    late = args[2] if len(args) > 2 else ()
    from flumine import BaseStrategy
    from flumine.events import events
    from betfairlightweight.resources.bettingresources import CurrentOrders

    out = []
    counts = {"clause:C19.b": 0, "roundtrip_refs": 0, "unknown_strategy_refs": 0}
    all_names = ["alpha", "Beta-2", "é漢", "ghost", "漢é", "Beta-2é"]
    producers = [BaseStrategy(market_filter={"markets": []}, name=n) for n in all_names]
    made = []
    for st in producers:
        for k in range(3):
            o = _mk(st, sep)
            made.append((st, o))
    w = livex.LiveWorld([], strategies=tuple(own))
    w.start()
    try:
        ex = w.exchange
        bets = []
        for st, o in made:
            ins = o.create_place_instruction()
            b = ex.new_bet("1.100000001", ins, "verif")
            bets.append(b)
        fw = w.framework
        if late:
            # strategies registered AFTER order-stream updates have already been processed: their references must
            # resolve as well (a first delivery happens before they are added, the full one afterwards)
            ex.publish("1.100000001", bets[:2])
            while ex.snap_queue:
                w.do(("D",))
            _, LiveScripted = livex.live_classes()
            for nm in late:
                fw.add_strategy(LiveScripted(w, market_filter={"marketIds": w.markets}, name=nm, max_order_exposure=None, max_selection_exposure=None))
        ex.publish("1.100000001", bets)
        while ex.snap_queue:
            w.do(("D",))
        by_name = {s.name: s for s in fw.strategies}
        case = dict(own=list(own), sep=sep, late=list(late))
        for (st, o), b in zip(made, bets):
            counts["clause:C19.b"] += 1
            counts["roundtrip_refs"] += 1
            got = fw.markets.get_order("1.100000001", o.id)
            if st.name in by_name:
                if got is None:
                    out.append(core.v("C19.b", ("roundtrip missing", "-"), "reference %r of strategy %r was not resolved by the second instance" % (o.customer_order_ref, st.name), case))
                elif got.trade.strategy is not by_name[st.name] or got.id != o.id or str(got.bet_id) != b.bet_id:
                    out.append(core.v("C19.b", ("roundtrip wrong strategy" if got.trade.strategy is not by_name[st.name] else "roundtrip wrong order", "-"), "reference %r resolved to strategy %r order %r bet %r" % (o.customer_order_ref, got.trade.strategy.name, got.id, got.bet_id), case))
            else:
                counts["unknown_strategy_refs"] += 1
                if got is not None:
                    out.append(core.v("C19.b", ("roundtrip unknown adopted", "-"), "reference of unknown strategy %r was adopted" % st.name, case))
        n_orders = sum(len(list(m.blotter)) for m in fw.markets)
        exp = sum(1 for st, o in made if st.name in by_name)
        if n_orders != exp:
            out.append(core.v("C19.b", ("roundtrip count", "-"), "%d local orders for %d references of known strategies" % (n_orders, exp), case))
        # an update for one bet changes that order only
        known = [(st, o, b) for (st, o), b in zip(made, bets) if st.name in by_name]
        if known:
            st, o, b = known[len(known) // 2]
            before = {id(x): x.size_matched for m in fw.markets for x in m.blotter}
            ex.fill(b, 1.0)
            while ex.snap_queue:
                w.do(("D",))
            for m in fw.markets:
                for x in m.blotter:
                    changed = x.size_matched != before[id(x)]
                    if changed != (x.id == o.id):
                        out.append(core.v("C19.b", ("roundtrip attribution", "-"), "update for order %r changed order %r" % (o.id, x.id), case))
        if w.handler_exceptions:
            out.append(core.v("C19.b", ("roundtrip exception", "-"), w.handler_exceptions[0][-300:], case))
    finally:
        w.stop()
    return dict(violations=_dedup(out), counts=counts)


def _roundtrip_default(args):
    """strategies that rely on the DEFAULT name (no name / empty name: the class name is used): two different
    subclasses are two strategies, and their references come back to the right one in a second instance."""
    (blank, first) = args
    from flumine import BaseStrategy

    out = []
    counts = {"clause:C19.b": 0, "default_name_refs": 0}
    cls_names = ["TrendFollower", "MeanReverter", "Scalper"]
    if first:
        cls_names = cls_names[first:] + cls_names[:first]
    producers = []
    for cn in cls_names:
        st = type(cn, (BaseStrategy,), {})(market_filter={"markets": []}, name=blank)
        producers.append((cn, st))
    named = BaseStrategy(market_filter={"markets": []}, name="alpha")
    made = [(cn, _mk(st, "-")) for cn, st in producers for k in range(3)] + [("alpha", _mk(named, "-")) for k in range(2)]
    w = livex.LiveWorld([], strategies=("alpha",))
    w.start()
    try:
        ex = w.exchange
        fw = w.framework
        _, LiveScripted = livex.live_classes()
        mine = {"alpha": [s_ for s_ in fw.strategies if s_.name == "alpha"][0]}
        for cn in cls_names:
            st2 = type(cn, (LiveScripted,), {})(w, market_filter={"marketIds": w.markets}, name=blank, max_order_exposure=None, max_selection_exposure=None)
            fw.add_strategy(st2)
            mine[cn] = st2
        bets = [ex.new_bet("1.100000001", o.create_place_instruction(), "verif") for cn, o in made]
        ex.publish("1.100000001", bets)
        while ex.snap_queue:
            w.do(("D",))
        case = dict(default_names=True, blank=blank, first=first)
        for (cn, o), b in zip(made, bets):
            counts["clause:C19.b"] += 1
            counts["default_name_refs"] += 1
            got = fw.markets.get_order("1.100000001", o.id)
            if got is None:
                out.append(core.v("C19.b", ("roundtrip missing", "default-name"), "reference %r of the unnamed strategy of class %s was not resolved by the second instance" % (o.customer_order_ref, cn), case))
            elif got.trade.strategy is not mine[cn]:
                out.append(core.v("C19.b", ("roundtrip wrong strategy", "default-name"), "reference %r of the unnamed strategy of class %s resolved to the strategy of class %s" % (o.customer_order_ref, cn, type(got.trade.strategy).__name__), case))
        if w.handler_exceptions:
            out.append(core.v("C19.b", ("roundtrip exception", "default-name"), w.handler_exceptions[0][-300:], case))
    finally:
        w.stop()
    return dict(violations=_dedup(out), counts=counts)


def _attr_replacement(args):
    """Betfair: the exchange reports a bet that carries a known order's reference under a bet id no local order
    has (the replacement bet seen before the replace reply, or by an instance that only knows the original bet):
    its report must not be written onto the order that shares the reference.  All orders of the snapshot image
    containing (original, replacement) are covered by delivering the full image."""
    fill_new, fill_old, complete_new = args
    out = []
    counts = {"clause:C19.b": 0, "replacement_bet_reports": 0}
    w = livex.LiveWorld([], strategies=("alpha",))
    w.start()
    try:
        ex = w.exchange
        fw = w.framework
        st = fw.strategies._strategies[0] if hasattr(fw.strategies, "_strategies") else list(fw.strategies)[0]
        o = _mk(st, "-")
        b = ex.new_bet("1.100000001", o.create_place_instruction(), "verif")
        ex.publish("1.100000001", [b])
        while ex.snap_queue:
            w.do(("D",))
        got = fw.markets.get_order("1.100000001", o.id)
        case = dict(attr_replacement=list(args))
        if got is None:
            out.append(core.v("C19.b", ("roundtrip missing", "replacement"), "reference not adopted", case))
            return dict(violations=out, counts=counts)
        if fill_old:
            ex.fill(b, fill_old)
            while ex.snap_queue:
                w.do(("D",))
        ref_state = (str(got.bet_id), got.size_matched, got.size_remaining, got.size_cancelled, got.status.name)
        b2 = ex.new_bet("1.100000001", o.create_place_instruction(), "verif", price=2.5)
        if fill_new:
            ex.fill(b2, 2.0 if not complete_new else 1000.0)
        else:
            ex.publish("1.100000001", [b2])
        while ex.snap_queue:
            w.do(("D",))
        counts["clause:C19.b"] += 1
        counts["replacement_bet_reports"] += 1
        now = (str(got.bet_id), got.size_matched, got.size_remaining, got.size_cancelled, got.status.name)
        if now != ref_state:
            out.append(core.v("C19.b", ("roundtrip attribution", "replacement-bet"), "the report of bet %s (same reference, unknown bet id) was written onto the order of bet %s: %r -> %r" % (b2.bet_id, b.bet_id, ref_state, now), case))
        if w.handler_exceptions:
            out.append(core.v("C19.b", ("roundtrip exception", "replacement-bet"), w.handler_exceptions[0][-300:], case))
    finally:
        w.stop()
    return dict(violations=out, counts=counts)


_BDQ_ITEMS = ("own0", "own1", "fA", "fB")


def _betdaq_batches():
    for n in range(1, len(_BDQ_ITEMS) + 1):
        for sub in itertools.permutations(_BDQ_ITEMS, n):
            if any(x.startswith("f") for x in sub):
                yield sub


def _betdaq_run(items):
    from props.betdaqlife import BetdaqWorld
    from flumine.events import events
    from flumine.clients import ExchangeType

    w = BetdaqWorld([("P", dict(sel=1, price=2.0, size=4.0)), ("P", dict(sel=2, price=3.0, size=6.0))])
    w.start()
    try:
        for ev in (("S",), ("X_send", 0), ("X_apply", 0), ("S",), ("X_send", 1), ("X_apply", 1), ("POLL",)):
            w.do(ev)
        own = sorted(w.api.orders.values(), key=lambda d: d["order_id"])
        if len(own) != 2:
            raise core.HarnessError("betdaq attribution: %d orders at the double" % len(own))
        seq = w.api.seq
        it = {}
        d = dict(own[0]); d.update(matched_size=2.0, remaining_size=2.0, matched_price=d["price"], sequence_number=seq + 1); it["own0"] = d
        d = dict(own[1]); d.update(matched_size=6.0, remaining_size=0.0, matched_price=d["price"], status="Matched", sequence_number=seq + 2); it["own1"] = d
        it["fA"] = dict(order_id=9001, customer_reference="123456789012345678", status="Matched", price=5.0, size=50.0, matched_size=50.0, remaining_size=0.0, matched_price=5.0, polarity=1, runner_id=701, sequence_number=seq + 3)
        it["fB"] = dict(order_id=9002, customer_reference="", status="Unmatched", price=7.0, size=9.0, matched_size=0.0, remaining_size=9.0, matched_price=0.0, polarity=2, runner_id=702, sequence_number=seq + 4)
        w.dispatch(events.CurrentOrdersEvent([dict(it[n]) for n in items], exchange=ExchangeType.BETDAQ))
        m = w.market()
        live = {id(x) for x in m.blotter.live_orders}
        rows = [(x.status.name, x.size_matched, x.size_remaining, x.complete, id(x) in live, str(x.bet_id), (x.current_order or {}).get("order_id") if isinstance(x.current_order, dict) else None) for x in m.blotter]
        return rows, [e[-300:] for e in w.handler_exceptions]
    finally:
        w.stop()


def _attr_betdaq(batches):
    """Betdaq: every ordering of a polling batch that mixes reports of the framework's own orders with reports
    of orders it does not know (placed by hand / by another instance on the account): the local orders must end
    exactly as after the same batch without the foreign reports (differential oracle on the real code)."""
    out = []
    counts = {"clause:C19.b": 0, "betdaq_batches": 0}
    cache = {}
    for items in batches:
        twin = tuple(n for n in items if n.startswith("own"))
        if twin not in cache:
            cache[twin] = _betdaq_run(twin)
        got, exc = _betdaq_run(items)
        counts["clause:C19.b"] += 1
        counts["betdaq_batches"] += 1
        case = dict(betdaq_batch=list(items))
        if exc:
            out.append(core.v("C19.b", ("roundtrip exception", "betdaq"), exc[0], case))
        if got != cache[twin][0]:
            out.append(core.v("C19.b", ("roundtrip attribution", "betdaq-foreign-report"), "batch %r: local orders %r, without the foreign reports %r" % (list(items), got, cache[twin][0]), case))
    return dict(violations=_dedup(out), counts=counts)


def _betdaq_place_reports(arrangements):
    """Betdaq: the reports of a place request come back in any order (one may be missing, one may carry an error
    code): each is applied to the order whose reference it carries - bet id, status and failure - never by position"""
    from flumine import BaseStrategy
    from flumine.clients import BetdaqClient
    from flumine.order.trade import Trade
    from flumine.order.ordertype import BetdaqLimitOrder
    from flumine.order.orderpackage import BetdaqOrderPackage, OrderPackageType

    out = []
    counts = {"clause:C19.b": 0, "betdaq_place_arrangements": 0}
    LiveFlumine, _ = livex.live_classes()
    for arr in arrangements:
        order_of, failing = arr  # order_of: tuple of order indices in the order the reports come back
        with core.owned_config(simulated=False):

            class _API:
                username = "bdq"

                def __init__(s_):
                    s_.betting = s_

                def place_orders(s_, order_list, **kw):
                    reps = []
                    for pos in order_of:
                        ins = order_list[pos]
                        bad = pos == failing
                        reps.append(dict(customer_reference=ins["PunterReferenceNumber"], order_id=None if bad else 7000 + pos, return_code=137 if bad else 0, status=None if bad else "Unmatched", matched_size=0.0, remaining_size=ins["Stake"], matched_price=0.0))
                    return reps

            client = BetdaqClient(_API())
            fw = LiveFlumine(client)
            st = BaseStrategy(market_filter={}, name="bdq", max_order_exposure=None, max_selection_exposure=None)
            fw.strategies(st, fw.clients, fw)
            orders = []
            for i in range(3):
                tr = Trade("1.100000001", 1 + i, 0, st)
                o = tr.create_betdaq_order("BACK", BetdaqLimitOrder(2.0 + i, 2.0 + i, betdaq_runner_id=700 + i, runner_reset_count=0, withdrawal_sequence_number=0))
                o.update_client(client)
                o.place(0, None, False)
                orders.append(o)
            pkg = BetdaqOrderPackage(client=client, market_id="1.100000001", orders=list(orders), package_type=OrderPackageType.PLACE, bet_delay=0, market_version=None)
            err = None
            try:
                fw.betdaq_execution.execute_place(pkg, None)
            except Exception as e:  # noqa
                err = repr(e)
        counts["clause:C19.b"] += 1
        counts["betdaq_place_arrangements"] += 1
        case = dict(betdaq_place=[list(order_of), failing])
        if err:
            out.append(core.v("C19.b", ("roundtrip exception", "betdaq-place"), "execute_place raised %s" % err, case))
            continue
        for i, o in enumerate(orders):
            if i not in order_of:
                continue  # no report for this order: nothing to attribute
            exp_bet = None if i == failing else 7000 + i
            exp_status = "EXECUTION_COMPLETE" if i == failing else "EXECUTABLE"
            if o.bet_id != exp_bet or o.status.name != exp_status:
                out.append(core.v("C19.b", ("roundtrip attribution", "betdaq-place-report"), "reports came back for orders %s (order %s refused): order %d has bet id %r status %s, its own report says %r / %s" % (list(order_of), failing, i, o.bet_id, o.status.name, exp_bet, exp_status), case))
                break
    return dict(violations=_dedup(out), counts=counts)


def _cleared_attr(seps_):
    """live settlement: the cleared-orders report carries the customer order reference; splitting it recovers the
    order for every permitted separator (the blotter attributes the settled report and profit to that order)"""
    from flumine import BaseStrategy
    from flumine.events import events
    from betfairlightweight.resources.bettingresources import ClearedOrders

    out = []
    counts = {"clause:C19.b": 0, "cleared_reports": 0}
    for sep in seps_:
        w = livex.LiveWorld([], strategies=("alpha",))
        w.start()
        try:
            fw = w.framework
            st = list(fw.strategies)[0]
            m = fw.markets.markets["1.100000001"]
            os_ = []
            for k in range(2):
                o = _mk(st, sep)
                o.bet_id = str(5000 + k)
                m.blotter[o.id] = o
                os_.append(o)
            rows = [{"marketId": "1.100000001", "betId": o.bet_id, "customerOrderRef": o.customer_order_ref, "customerStrategyRef": "verif", "profit": 1.5 + k, "sizeSettled": 2.0, "selectionId": 1, "side": "BACK"} for k, o in enumerate(os_)]
            co = ClearedOrders(clearedOrders=rows, moreAvailable=False)
            co.market_id = "1.100000001"
            w.dispatch(events.ClearedOrdersEvent(co))
            counts["clause:C19.b"] += 1
            counts["cleared_reports"] += len(rows)
            case = dict(cleared_sep=sep)
            for k, o in enumerate(os_):
                got = getattr(o, "cleared_order", None)
                if got is None or got.bet_id != o.bet_id:
                    out.append(core.v("C19.b", ("roundtrip attribution", "cleared-order"), "separator %r: the cleared report of bet %s was not attributed to its order (cleared_order=%r)" % (sep, o.bet_id, got and got.bet_id), case))
                    break
            if w.handler_exceptions:
                out.append(core.v("C19.b", ("roundtrip exception", "cleared-order"), w.handler_exceptions[0][-300:], case))
        finally:
            w.stop()
    return dict(violations=_dedup(out), counts=counts)


def _dedup(vs, per_key=1):
    seen, out = {}, []
    for d in vs:
        k = tuple(d["key"])
        seen[k] = seen.get(k, 0) + 1
        if seen[k] <= per_key:
            out.append(d)
    return out


def run(tier):
    rep = core.Report("C19", tier, "E3 gridx + E2 livex")
    thorough = tier == "thorough"
    nm = names()
    chunks = [nm[i : i + 6] for i in range(0, len(nm), 6)]
    for r in core.pmap(_grid_chunk, chunks, chunk=1):
        rep.add_violations(r["violations"])
        rep.merge_counts(r["counts"])
    n = 40000 if thorough else 10000
    for r in core.pmap(_ids_job, [("loop", n), ("simclock", n), ("threads", n), ("coarse-clock", n), ("seam", 6)], chunk=1):
        rep.add_violations(r["violations"])
        rep.merge_counts(r["counts"])
    rj = []
    for own in (("alpha",), ("alpha", "Beta-2"), ("Beta-2", "é漢", "alpha"), ("é漢",), ("é漢", "漢é", "Beta-2é", "Beta-2")):
        for sep in ("-", "_", "~", ":", "Z", "0") if thorough else ("-", "~", "0"):
            rj.append((own, sep))
    rj.append((("é漢",), "-", ("alpha", "Beta-2")))
    rj.append((("Beta-2", "é漢"), "~", ("alpha",)))
    for r in core.pmap(_roundtrip, rj, chunk=1):
        rep.add_violations(r["violations"])
        rep.merge_counts(r["counts"])
    for r in core.pmap(_roundtrip_default, [(b, f) for b in (None, "") for f in (0, 1)], chunk=1):
        rep.add_violations(r["violations"])
        rep.merge_counts(r["counts"])
    aj = [(fn, fo, cn) for fn in (0, 1) for fo in (0.0, 1.0) for cn in (False, True) if fn or not cn]
    for r in core.pmap(_attr_replacement, aj, chunk=1):
        rep.add_violations(r["violations"])
        rep.merge_counts(r["counts"])
    bb = list(_betdaq_batches())
    for r in core.pmap(_attr_betdaq, [bb[i::8] for i in range(8)], chunk=1):
        rep.add_violations(r["violations"])
        rep.merge_counts(r["counts"])
    arrs = []
    for k in (2, 3):
        for order_of in itertools.permutations(range(3), k):
            for failing in (None, 0, 1, 2):
                arrs.append((order_of, failing))
    for r in core.pmap(_betdaq_place_reports, [arrs[i::8] for i in range(8)], chunk=1):
        rep.add_violations(r["violations"])
        rep.merge_counts(r["counts"])
    vs = sorted(VALID)
    for r in core.pmap(_cleared_attr, [vs[i::8] for i in range(8)], chunk=1):
        rep.add_violations(r["violations"])
        rep.merge_counts(r["counts"])
    # the strategy part of a reference identifies the strategy: distinct names of the grid give distinct hashes
    from flumine import BaseStrategy as _BS

    by_hash = {}
    for name in nm:
        hh = _BS(market_filter={"markets": []}, name=name).name_hash
        rep.count("clause:C19.b", 1)
        if hh in by_hash and by_hash[hh] != name:
            rep.add_violations([core.v("C19.b", ("parse strategy", "hash-collision"), "strategy names %r and %r share the reference prefix %r" % (by_hash[hh][:20], name[:20], hh), dict(name=name[:40], other=by_hash[hh][:40], sep="-"))])
            break
        by_hash[hh] = name
    rep.need("replacement_bet_reports", "betdaq_batches", "betdaq_place_arrangements", "cleared_reports")
    rep.need("default_name_refs", "valid_seps_accepted", "invalid_seps_rejected", "orders_created", "roundtrip_refs", "unknown_strategy_refs")
    rep.states = len(nm) * (len(seps()) - 1) * 2 + len(rj)
    rep.transitions = sum(rep.clauses.values())
    rep.traces = rep.transitions
    rep.evaluations = rep.transitions
    rep.nontrivial = len(nm) * 2 + len(rj)
    rep.outcomes = set(range(3))
    rep.sample({"name": nm[20], "sep": "~"})
    rep.sample({"roundtrip": rj[1]})
    rep.bounds = dict(names=len(nm), separators=len(seps()) - 1, id_loop=n, roundtrip_runs=len(rj))
    rep.rule = "complete grid: %d strategy names (empty, every string of length <=2 over {a,Z,0,-,space,é,漢,NUL}, lengths 13/32/1000, unicode) x %d separators (all 128 ASCII characters, non-ASCII, lengths 0 and 2) through constructor and assignment; id loops of %d orders under the real clock, a frozen simulated clock and 4 threads; id seam with 17/18-digit boundary values; references replayed into a second real framework instance holding 1-3 of the strategies; a bet sharing a known reference under an unknown bet id; every ordering of every Betdaq polling batch over {2 own reports, 2 foreign reports} containing a foreign report, against the same batch without them" % (len(nm), len(seps()) - 1, n)
    rep.assumptions = [
        "Betfair's customer reference character set restated in the check (letters, digits, - . _ + * : ; ~)",
        "distinct uuid1() calls give distinct .time values (libuuid / the OS clock): observed over the creation loops, otherwise assumed",
        "19-digit ids (uuid1 timestamps after the year 4700) are outside the domain; strategies with equal names are outside (flumine warns)",
    ]
    return rep.finish()


def replay(rep):
    c = rep["case"]
    if "other" in c:
        from flumine import BaseStrategy as _BS

        a = _BS(market_filter={"markets": []}, name=c["name"]).name_hash
        b = _BS(market_filter={"markets": []}, name=c["other"]).name_hash
        print(c["name"], a, c["other"], b)
        return 1 if a == b and c["name"] != c["other"] else 0
    if "betdaq_place" in c:
        r = _betdaq_place_reports([(tuple(c["betdaq_place"][0]), c["betdaq_place"][1])])
    elif "cleared_sep" in c:
        r = _cleared_attr([c["cleared_sep"]])
    elif "attr_replacement" in c:
        r = _attr_replacement(tuple(c["attr_replacement"]))
    elif "betdaq_batch" in c:
        r = _attr_betdaq([tuple(c["betdaq_batch"])])
    elif "default_names" in c:
        r = _roundtrip_default((c["blank"], c["first"]))
    elif "own" in c:
        r = _roundtrip((tuple(c["own"]), c["sep"], tuple(c.get("late") or ())))
    elif "mode" in c:
        r = _ids_job((c["mode"], 2000))
    else:
        r = _grid_chunk([c["name"]])
    for d in r["violations"]:
        print(d["key"], d["detail"])
    return 1 if r["violations"] else 0
