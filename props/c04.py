"""C04 Simulated order sizes are conserved — E1 simx: BFS with canonical-state dedup + deviation-bounded
enumeration of histories of the real simulated exchange, ledger oracle at every strategy callback."""
import itertools

from mc import core, simx
from props import simlife as L

CLAUSES = {
    "C04.a": "size = matched + remaining + cancelled + lapsed + voided, every bucket >= 0 (LAY limit carried to SP: total only)",
    "C04.b": "size_matched equals the sum of the fragments",
    "C04.c": "at strategy callbacks an order that reached the exchange is complete exactly when nothing remains",
    "C04.d": "matched size never decreases except when voided by removal of its runner",
    "C04.e": "cancelled/lapsed/voided only grow for the event kinds the statement lists",
}

ENABLED = {"C04"}


def alphabet(dt, rich):
    """Letters = ticks [dt, event, actions]; simplest first."""
    A = [L.tick(dt)]
    evs = ["T21", "T22", "SUS", "OPN", "RM1", "RM2", "IP", "CL", "SUSRM1"] + (["T20", "T2x", "B", "IP0"] if rich else [])
    for e in evs:
        A.append(L.tick(dt, e))
    places = ["PBn", "XBp", "PB", "PL", "FOK", "PBm", "PLm", "PBv"] + (["TB", "XB", "XL", "PBp", "PBc", "P2"] if rich else [])
    for p in places:
        A.append(L.tick(dt, "Q", [L.P(p)]))
    for i in (0, 1):
        A.append(L.tick(dt, "Q", [["C", i, None]]))
        A.append(L.tick(dt, "Q", [["C", i, 2.0]]))
        A.append(L.tick(dt, "Q", [["R", i, 2.3]]))
        if rich:
            A.append(L.tick(dt, "Q", [["C", i, 9.0]]))
            A.append(L.tick(dt, "Q", [["R", i, 2.0]]))
            A.append(L.tick(dt, "Q", [["U", i, "PERSIST"]]))
    # an action together with a market event in the same update
    A.append(L.tick(dt, "SUS", [["C", 0, None]]))
    A.append(L.tick(dt, "T21", [["C", 0, 2.0]]))
    A.append(L.tick(dt, "RM1", [L.P("PBn")]))  # the runner is withdrawn while the placement is in flight (slow configs)
    # batched placements with an explicit execute() in the middle: nothing may reach the matching engine twice
    A.append(L.tick(dt, "Q", [["TX", [L.P("XB"), L.P("PBn")], [1]]]))
    return A


def _run(args):
    hist, cfg = args
    return L.run_history(hist, ENABLED, cfg)


def terminal(letter):
    return letter[1][0] == "CL"


def explore(rep, enabled, alpha_fn, tier, cfgs, depth_q, depth_t, dev_k_q, dev_k_t, horizon, run=None, dev_alpha_fn=None):
    """Shared driver: for each world configuration, BFS (dedup) to a depth + deviation-bounded sweep."""
    run = run or _run
    depth = depth_t if tier == "thorough" else depth_q
    k = dev_k_t if tier == "thorough" else dev_k_q
    for n_cfg, cfg in enumerate(cfgs):
        dt = cfg.get("dt", 200)
        A = alpha_fn(dt, cfg.get("rich", False))
        label = "bfs dt=%d %s" % (dt, cfg.get("name", ""))
        if tier == "thorough" and n_cfg == 0 and not getattr(rep, "_dedup_validated", False):
            rep._dedup_validated = True
            validate_dedup(rep, run, alpha_fn(dt, False), 3 if len(alpha_fn(dt, False)) <= 32 else 2, cfg)
        bfs(rep, run, A, depth, cfg, label)
        if k:
            DA = (dev_alpha_fn or alpha_fn)(dt, False)[1:]
            default = DA and L.tick(dt)
            n = 0
            jobs = []
            for h in simx.enumerate_deviation_histories(horizon, k, default, DA):
                # closures are terminal: cut the history after the first CL
                cut = None
                for i, t in enumerate(h):
                    if terminal(t):
                        cut = i + 1
                        break
                if cut is not None and cut < len(h):
                    if any(x != default for x in h[cut:]):
                        continue
                    h = h[:cut]
                jobs.append((h, cfg))
            res = core.pmap(run, jobs)
            for (h, _), r in zip(jobs, res):
                rep.transitions += 1
                rep.traces += 1
                rep.add_violations(r["violations"])
                rep.merge_counts(r["counts"])
                rep.outcomes.add(r["outcome"])
            rep.per_level.append(dict(mode="deviation dt=%d %s" % (dt, cfg.get("name", "")), k=k, horizon=horizon, executed=len(jobs)))
            rep.states += len({r["canon"] for r in res if r["canon"] is not None})
            if jobs:
                rep.sample({"mode": "deviation", "history": jobs[len(jobs) // 2][0]})
    rep.bounds = dict(bfs_depth=depth, deviation_bound=k, horizon=horizon, alphabet=len(alpha_fn(200, False)), alphabet_rich=len(alpha_fn(200, True)), configs=[c.get("name") for c in cfgs])


def validate_dedup(rep, run, A, depth, cfg):
    """Canonicaliser check: exploring WITHOUT deduplication must reach exactly the same set of canonical
    states (and violation keys) per level as exploring with it; otherwise the abstraction merges states with
    different futures and nothing it reports can be trusted."""
    full = [[]]
    ded = [[]]
    seen = set()
    # cumulative: a state met again at a deeper level is pruned there, its successors were reached one level
    # earlier -- so the sets compared are "reached within <= level ticks"
    fcum, dcum, fkcum, dkcum = set(), set(), set(), set()
    for level in range(1, depth + 1):
        fj = [(h + [a], cfg) for h in full if not (h and terminal(h[-1])) for a in A]
        fr = core.pmap(run, fj)
        dj = [(h + [a], cfg) for h in ded if not (h and terminal(h[-1])) for a in A]
        dr = core.pmap(run, dj)
        # histories ending in a closure are terminal (no end-of-update canonical form is taken there)
        fs = {r["canon"] for (h, _), r in zip(fj, fr) if not terminal(h[-1])}
        ds = {r["canon"] for (h, _), r in zip(dj, dr) if not terminal(h[-1])}
        fk = {tuple(v["key"]) for r in fr for v in r["violations"]}
        dk = {tuple(v["key"]) for r in dr for v in r["violations"]}
        if None in fs:
            rep.extra.setdefault("dedup_validation", []).append(dict(config=cfg.get("name"), level=level, skipped="canonical form unavailable"))
            return
        fcum |= fs
        dcum |= ds
        fkcum |= fk
        dkcum |= dk
        fs, ds, fk, dk = fcum, dcum, fkcum, dkcum
        if fs != ds or fk != dk:
            raise core.HarnessError("canonical-state dedup is unsound at level %d of %s: %d states without dedup vs %d with; violation keys %d vs %d" % (level, cfg.get("name"), len(fs), len(ds), len(fk), len(dk)))
        rep.extra.setdefault("dedup_validation", []).append(dict(config=cfg.get("name"), level=level, executions_without_dedup=len(fj), executions_with_dedup=len(dj), states_within_level=len(fs)))
        full = [h for h, _ in fj]
        nxt = []
        for (h, _), r in zip(dj, dr):
            if r["canon"] not in seen:
                seen.add(r["canon"])
                nxt.append(h)
        ded = nxt


def bfs(rep, run, A, depth, cfg, label):
    seen = set()
    # a configuration may name a non-initial start state by the history that reaches it
    frontier = [list(cfg.get("prefix") or [])]
    for level in range(1, depth + 1):
        jobs = [(h + [a], cfg) for h in frontier if not (h and terminal(h[-1])) for a in A]
        res = core.pmap(run, jobs)
        nxt, new = [], 0
        for (h, _), r in zip(jobs, res):
            rep.transitions += 1
            rep.traces += 1
            rep.add_violations(r["violations"])
            rep.merge_counts(r["counts"])
            rep.outcomes.add(r["outcome"])
            c = r["canon"]
            if c is None:
                nxt.append(h)
                new += 1
            elif c not in seen:
                seen.add(c)
                nxt.append(h)
                new += 1
        rep.per_level.append(dict(mode=label, level=level, executed=len(jobs), new_states=new))
        rep.states += new
        frontier = nxt
        if not frontier:
            break
    if frontier:
        rep.sample({"mode": label, "history": frontier[len(frontier) // 2]})


CFGS_Q = [
    dict(name="fast-rich", dt=200, rich=True),
    dict(name="slow", dt=100),
    dict(name="fast-nobpe", dt=200, client_kw=dict(best_price_execution=False)),
    dict(name="fast-fullmatch", dt=200, client_kw=dict(simulated_full_match=True)),
]
CFGS_T = [
    dict(name="fast-rich", dt=200, rich=True),
    dict(name="slow", dt=100),
    dict(name="fast-nobpe", dt=200, client_kw=dict(best_price_execution=False)),
    dict(name="fast-fullmatch", dt=200, client_kw=dict(simulated_full_match=True)),
]


def run(tier):
    rep = core.Report("C04", tier, "E1 simx")
    cfgs = CFGS_T if tier == "thorough" else CFGS_Q
    explore(rep, ENABLED, alphabet, tier, cfgs, depth_q=3, depth_t=4, dev_k_q=2, dev_k_t=3, horizon=7)
    rep.need("partly_matched_partly_cancelled", "void_on_removal_of_matched", "placed")
    rep.rule = "BFS over histories of ticks (market event x strategy action) with canonical-state dedup, every run is a complete FlumineSimulation.run(); plus all histories with <= k deviations from the quiet tick over a fixed horizon"
    rep.assumptions = [
        "LAY limit orders carried to the starting price: buckets may be negative, total only (as stated)",
        "orders in status VIOLATION are outside (never sent); C02 judges refusals",
        "canonical-state dedup reads private fields defensively and falls back to no dedup if one is missing",
    ]
    return rep.finish()


def replay(rep):
    c = rep["case"]
    r = L.run_history(c["history"], ENABLED, c.get("cfg"))
    for d in r["violations"]:
        print(d["key"], d["detail"])
    return 1 if r["violations"] else 0
