"""C18 The transaction-limit control counts exactly and blocks when exceeded — E1 simx (package
sequences x clock steps across hour/day boundaries x limits x two clients) + E2 livex (concurrently
outstanding executions in every order) + E4 thrx (opcode-level interleavings of add_transaction)."""
import datetime as _dt
import itertools

from mc import core, simx, livex, thrx
from props import simlife as L

CLAUSES = {
    "C18.a": "total / hourly transaction counters equal bets submitted + failed instructions reported (since start / since the last restart)",
    "C18.b": "once the hourly total exceeds the limit every unforced request is refused until the first request in a new clock hour, which restarts the hourly counters",
    "C18.c": "a client without a limit is never blocked",
    "C18.d": "clients do not affect each other",
}

HOUR = 1700002800000  # 2023-11-14T23:00:00Z
T0 = HOUR - 7000


class Shadow:
    """ref_txn (Appendix A9) per client, fed from what reaches the execution layer."""

    def __init__(self):
        self.total = 0
        self.hourly = 0
        self.hour_id = None

    def validate(self, now):
        nh = now + _dt.timedelta(hours=1)
        hid = (nh.date(), nh.hour)
        if self.hour_id != hid:
            self.hour_id = hid
            self.hourly = 0
            return True
        return False

    def add(self, n):
        self.total += n
        self.hourly += n


class Hooks:
    def __init__(self, limits, hist, cfg):
        self.limits = limits
        self.hist = hist
        self.cfg = cfg
        self.shadow = {}
        self.viol = []
        self.counts = {"clause:C18.a": 0, "clause:C18.b": 0, "clause:C18.c": 0, "clause:C18.d": 0, "blocked_requests": 0, "hour_restarts": 0, "day_restarts": 0, "failed_instructions": 0, "accepted_after_restart": 0, "forced_requests": 0}
        self.pending = {}  # id(package) -> (client idx, submitted instructions)
        self.pre_fail = {}

    def sh(self, w, client):
        i = w.clients.index(client)
        if i not in self.shadow:
            self.shadow[i] = Shadow()
        return i, self.shadow[i]

    def v(self, clause, key, detail):
        self.viol.append(core.v(clause, key, detail, dict(history=self.hist, cfg=self.cfg), size=L._hsize(self.hist)))

    def _now(self):
        from flumine import config

        return config.current_time

    def boundary(self, prev, now):
        if prev is None:
            return "none"
        if prev.date() != now.date():
            return "day"
        if prev.hour != now.hour:
            return "hour"
        return "none"

    # requests
    def on_validate(self, w, client):
        """the client's transaction control is being asked (earlier controls let the request through)"""
        i, sh = self.sh(w, client)
        prev_hid = sh.hour_id
        restarted = sh.validate(self._now())
        if restarted and prev_hid is not None:
            self.counts["day_restarts" if prev_hid[0] != sh.hour_id[0] else "hour_restarts"] += 1
        self._validated = dict(hourly=sh.hourly, restarted=restarted)

    def pre_action(self, w, st, market, act, o):
        client = w.clients[st.client_idx]
        i, sh = self.sh(w, client)
        forced = (act[0] == "P" and act[1].get("force")) or (act[0] in ("C", "U") and len(act) > 3 and act[3]) or (act[0] == "R" and len(act) > 4 and act[4])
        self._pre = dict(i=i, forced=bool(forced))
        self._validated = None
        if forced:
            self.counts["forced_requests"] += 1

    def post_action(self, w, st, market, act, o, out):
        pre = getattr(self, "_pre", None)
        if pre is None or o is None:
            return
        self._pre = None
        i = pre["i"]
        limit = self.limits[i]
        msg = (o.violation_msg or "") if out is False else ""
        blocked = out is False and "MAX_TRANSACTION_COUNT" in msg
        kind = {"P": "place", "C": "cancel", "U": "update", "R": "replace"}[act[0]]
        val = self._validated
        self._validated = None
        if pre["forced"]:
            if val is not None:
                self.v("C18.b", ("hourly", kind, "none", "forced-validated"), "a forced request was validated by the transaction control")
            return
        if val is None:
            return  # an earlier control refused the request (or the order rejected it) before the client control was asked
        pre["hourly"], pre["restarted"] = val["hourly"], val["restarted"]
        if isinstance(out, str):
            return  # rejected by the order itself after the controls (C03 owns that)
        self.counts["clause:C18.b"] += 1
        should_block = limit is not None and pre["hourly"] > limit
        if limit is None:
            self.counts["clause:C18.c"] += 1
            if blocked:
                self.v("C18.c", ("limit-none", kind, "none", "blocked"), "client without a limit was blocked: %s" % msg)
            return
        if should_block:
            self.counts["blocked_requests"] += 1
            if out is True:
                self.v("C18.b", ("hourly", kind, "none", "not blocked"), "request accepted although the hourly total %d exceeds the limit %s" % (pre["hourly"], limit))
        else:
            if blocked:
                bk = "restart" if pre["restarted"] else "none"
                self.v("C18.b", ("hourly", kind, bk, "blocked"), "request refused by the transaction limit although the hourly total is %d (limit %s)%s" % (pre["hourly"], limit, " right after a new hour started" if pre["restarted"] else ""))
            elif pre["restarted"] and out is True:
                self.counts["accepted_after_restart"] += 1

    # execution layer
    def pre_execute(self, w, p):
        t = p.package_type.name
        # charged to the client the requesting strategy trades through (not to whatever client the package names)
        owner = p._orders[0].trade.strategy if p._orders else None
        cl = w.clients[owner.client_idx] if owner is not None and hasattr(owner, "client_idx") else p.client
        i, sh = self.sh(w, cl)
        live = [o for o in p._orders if L.sname(o.status) != "VIOLATION"]
        sub = 0
        if t == "PLACE":
            sub = len(live)
        elif t == "REPLACE":
            sub = len([o for o in live if L.sname(o.status) != "EXECUTION_COMPLETE"])
        self.pending[id(p)] = (i, sub, [(o, len(o.responses.cancel_responses), len(o.responses.update_responses)) for o in live])

    def post_execute(self, w, p):
        i, sub, before = self.pending.pop(id(p))
        sh = self.shadow[i]
        fails = 0
        for o, nc, nu in before:
            fails += sum(1 for r in o.responses.cancel_responses[nc:] if getattr(r, "status", None) == "FAILURE")
            fails += sum(1 for r in o.responses.update_responses[nu:] if getattr(r, "status", None) == "FAILURE")
        self.counts["failed_instructions"] += fails
        sh.add(sub + fails)
        self.check_counts(w, "after-execution:" + p.package_type.name)

    def check_counts(self, w, where):
        for i, c in enumerate(w.clients):
            sh = self.shadow.get(i) or Shadow()
            self.counts["clause:C18.a"] += 1
            if c.transaction_count_total != sh.total:
                self.v("C18.a", ("total", where.split(":")[-1], "none", "count " + ("over" if c.transaction_count_total > sh.total else "under")), "client %d transaction_count_total %s, reference %s" % (i, c.transaction_count_total, sh.total))
            if len(w.clients) > 1:
                self.counts["clause:C18.d"] += 1

    def tick_end(self, w, market, mb):
        self.check_counts(w, "tick")
        # hourly counters are compared right after a validation only (they restart lazily)

    def status(self, w, o, prev, new, site):
        pass


def alphabet(limits):
    A = []
    for dt in (100, 1000, 5000):
        A.append(L.tick(dt))
    for dt in (3595_000, 3600_000, 86400_000):
        A.append(L.tick(dt))
    k = len(limits)
    for c in range(k):
        wrap = (lambda a: a) if c == 0 else (lambda a, c=c: ["@", c, a])
        A.append(L.tick(1000, "Q", [wrap(L.P("XB"))]))
        A.append(L.tick(1000, "Q", [wrap(L.P("PBn"))]))
        A.append(L.tick(1000, "Q", [wrap(["TX", [L.P("PBn"), L.P("PL"), L.P("P2")], []])]))
        A.append(L.tick(1000, "Q", [wrap(L.P("PBv"))]))
        A.append(L.tick(100, "SUS", [wrap(["C", 0, None])]))  # cancel that fails: the market is suspended when it executes ...
        A.append(L.tick(100, "Q", [wrap(["C", 1, None])]))  # ... 100 ms steps keep requests in flight over an update
        # two updates in ONE package, both failing (the market is suspended when the package executes)
        A.append(L.tick(100, "SUS", [wrap(["TX", [["U", 0, "PERSIST"], ["U", 1, "PERSIST"]], []])]))
        A.append(L.tick(1000, "Q", [wrap(["C", 0, None])]))
        A.append(L.tick(100, "T22", [wrap(["C", 0, None])]))  # cancel that fails on an open market: the order is matched while it is in flight
        A.append(L.tick(1000, "Q", [wrap(["R", 0, 2.3])]))
        A.append(L.tick(1000, "Q", [wrap(["R", 1, 2.4])]))  # a further replace of the replacement order
        A.append(L.tick(100, "T22", [wrap(["R", 0, 2.3])]))  # the order is matched while the replace is in flight: nothing is submitted for it
        A.append(L.tick(3600_000, "Q", [wrap(L.P("PBn"))]))
        A.append(L.tick(1000, "Q", [wrap(L.P("XB", force=True))]))
    A.append(L.tick(1000, "OPN"))
    return A


def _run(args):
    hist, cfg = args
    limits = cfg["limits"]
    ns = len(limits)
    ticks, scripts = L.split_history(hist, ns)
    spec = simx.MarketSpec(book0=L.BOOK0, t0=cfg.get("t0", T0), market_time_offset_s=10 * 86400)
    h = Hooks(limits, hist, cfg)
    skw = dict(max_order_exposure=None, max_selection_exposure=None, max_live_trade_count=50)
    strategies = [dict(script=scripts[k], kw=dict(skw), client=k, name="S%d" % k) for k in range(ns)]
    L._install_created_tracking()

    def setup(w):
        # observation point: the moment the client's transaction control is consulted
        for c in w.clients:
            for ctl in c.trading_controls:
                if hasattr(ctl, "add_transaction"):
                    orig = ctl._validate

                    def _validate(order, package_type, orig=orig, c=c):
                        h.on_validate(w, c)
                        return orig(order, package_type)

                    ctl._validate = _validate

    w = simx.SimWorld([(spec, ticks)], strategies, hooks=h, n_clients=ns, client_kw={i: dict(transaction_limit=limits[i]) for i in range(ns)}, flumine_setup=setup)
    w.run()
    if w.run_exception is not None:
        h.v("C18.a", ("run", "exception", "none", type(w.run_exception).__name__), "run raised %r" % (w.run_exception,))
    # hourly counters at the end against the shadow (same lazily-restarted quantity)
    for i, c in enumerate(w.clients):
        sh = h.shadow.get(i)
        if sh is not None and sh.hour_id is not None:
            h.counts["clause:C18.a"] += 1
            if c.current_transaction_count_total != sh.hourly:
                h.v("C18.a", ("hourly", "end", "none", "count " + ("over" if c.current_transaction_count_total > sh.hourly else "under")), "client %d current_transaction_count_total %s, reference %s" % (i, c.current_transaction_count_total, sh.hourly))
    canon = None
    outcome = core.stable_hash([[c.transaction_count_total, c.current_transaction_count_total] for c in w.clients] + [[str(e[3]) for e in st.log] for st in w.strategies])
    return dict(canon=None, violations=_dedup(h.viol), counts=h.counts, outcome=outcome)


def _dedup(vs, per_key=1):
    seen, out = {}, []
    for d in vs:
        k = tuple(d["key"])
        seen[k] = seen.get(k, 0) + 1
        if seen[k] <= per_key:
            out.append(d)
    return out


# ---- E2: concurrently outstanding executions -------------------------------------------
def _live_job(args):
    n, limit = args[:2]
    kind = args[2] if len(args) > 2 else "CC"
    A = dict(sel=1, side="BACK", price=2.2, size=5.0)
    last = ["CC", [[0], [1]]] if kind in ("CC", "CC2") else ["RR", [[0, 3.0], [1, 3.2]]]
    script = [(0, ["P", dict(A, price=round(2.2 + 0.2 * i, 2))]) for i in range(n)] + [(0, last)]
    viol, counts = [], {"clause:C18.a": 0, "live_quiescent": 0, "concurrent_outstanding": 0}

    def mk():
        return livex.LiveWorld(script, budgets=dict(fill=0), transaction_limit=limit, strategy_kw=dict(max_live_trade_count=9), fault_plan={n: {"per": ["FAILURE:ERROR_IN_ORDER", "FAILURE:ERROR_IN_ORDER" if kind == "CC2" else "SUCCESS"]}}).start()

    def chk(w, path):
        if len([t for t in w.pool.tasks if t.state != "done"]) >= 2:
            counts["concurrent_outstanding"] += 1
        if w.quiescent():
            counts["live_quiescent"] += 1
            counts["clause:C18.a"] += 1
            exp = 0
            for c in w.exchange.calls:
                if not c["answered"]:
                    continue
                if c["method"] in ("placeOrders", "replaceOrders"):
                    exp += c["n"]
                if c["method"] == "replaceOrders":
                    exp += sum(1 for r in c["reports"] if r["cancelInstructionReport"]["status"] == "FAILURE")
                elif c["method"] != "placeOrders":
                    exp += sum(1 for r in c["reports"] if r["status"] == "FAILURE")
            got = w.client.transaction_count_total
            if got != exp or w.client.current_transaction_count_total != exp:
                viol.append(core.v("C18.a", ("total", "live", "none", "count " + ("over" if got > exp else "under")), "live: transaction_count_total %s / hourly %s, exchange saw %s" % (got, w.client.current_transaction_count_total, exp), dict(path=[list(e) for e in w.trace], n=n)))

    st = livex.explore(mk, chk, max_depth=30, cap=30000)
    return dict(violations=_dedup(viol), counts=counts, stats=st)


# ---- E4: opcode-level interleavings of add_transaction ----------------------------------
def _thr_job(args):
    calls, bound = args  # calls: per thread list of (count, failed)
    from flumine.controls.clientcontrols import MaxTransactionCount

    class C:
        transaction_limit = None
        info = {}

    viol = []
    exp_ok = sum(c for th in calls for c, f in th if not f)
    exp_f = sum(c for th in calls for c, f in th if f)
    outcomes = set()

    def make():
        ctl = MaxTransactionCount(None, C())
        ctx = dict(ctl=ctl)

        def install(s):
            if isinstance(getattr(ctl, "_lock", None), type(__import__("threading").Lock())):
                ctl._lock = thrx.CoopLock(s)

        ctx["install"] = install

        def body(th):
            def run():
                for c, f in th:
                    ctl.add_transaction(c, f)

            return run

        return [body(th) for th in calls], [MaxTransactionCount.add_transaction.__code__], ctx

    def check(ctx, s):
        c = ctx["ctl"]
        got = (c.transaction_count, c.current_transaction_count, c.failed_transaction_count, c.current_failed_transaction_count)
        outcomes.add(got)
        if s.errors:
            viol.append(core.v("C18.a", ("total", "threads", "none", "exception"), "thread raised: %s" % s.errors[0][-200:], dict(calls=calls, choices=[p[2] for p in s.points])))
        elif got != (exp_ok, exp_ok, exp_f, exp_f):
            viol.append(core.v("C18.a", ("total", "threads", "none", "lost update"), "counters %s after concurrent add_transaction calls %s, expected %s" % (got, calls, (exp_ok, exp_ok, exp_f, exp_f)), dict(calls=calls, choices=[p[2] for p in s.points]), size=sum(1 for p in s.points if p[2])))

    st = thrx.explore(make, check, bound, cap=60000)
    return dict(violations=_dedup(viol), stats=st, outcomes=len(outcomes))


def _mixed_job(a):
    return _live_job(a[1]) if a[0] == "live" else _thr_job(a[1])


def run(tier):
    from props import c04

    rep = core.Report("C18", tier, "E1 simx + E2 livex + E4 thrx")
    thorough = tier == "thorough"
    cfgs = [
        dict(name="limit3", limits=[3], dt=1000),
        dict(name="limit0", limits=[0], dt=1000),
        dict(name="limit1", limits=[1], dt=1000),
        # start state: one bet, then a cancel that failed (market suspended when it executed), market open again -
        # failed instructions alone have taken the hourly total over the limit
        dict(name="limit1-after-failed-cancel", limits=[1], dt=1000, prefix=[L.tick(1000, "Q", [L.P("PBn")]), L.tick(100, "SUS", [["C", 0, None]]), L.tick(1000), L.tick(1000, "OPN")]),
        dict(name="nolimit", limits=[None], dt=1000),
        dict(name="two-clients", limits=[3, None], dt=1000),
        dict(name="midnight", limits=[3], dt=1000, t0=HOUR + 3600_000 - 7000),
    ] + ([dict(name="limit5000", limits=[5000], dt=1000), dict(name="two-limits", limits=[1, 3], dt=1000)] if thorough else [])
    for cfg in cfgs:
        alpha = lambda dt, rich, lim=cfg["limits"]: alphabet(lim)
        c04.explore(rep, {"C18"}, alpha, tier, [cfg], depth_q=3, depth_t=4, dev_k_q=0, dev_k_t=0, horizon=0, run=_run)
    # E2
    lj = [(2, None), (3, 1), (2, None, "RR"), (2, None, "CC2")] + ([(3, None), (4, None)] if thorough else [])
    live_results = []
    # E4
    T = lambda c, f=False: (c, f)
    tj = [
        ([[T(1)], [T(2)]], 2),
        ([[T(1)], [T(2, True)]], 2),
        ([[T(1), T(1, True)], [T(2)]], 2),
        ([[T(1)], [T(2)], [T(4)]], 1 if not thorough else 2),
        ([[T(1), T(3)], [T(2), T(5, True)]], 1 if not thorough else 2),
    ]
    # the live and thread jobs are independent: one pool for all of them
    mixed = core.pmap(_mixed_job, [("live", j) for j in lj] + [("thr", j) for j in tj], chunk=1)
    for r in mixed[: len(lj)]:
        rep.add_violations(r["violations"])
        rep.merge_counts(r["counts"])
        rep.states += r["stats"]["states"]
        rep.transitions += r["stats"]["transitions"]
        rep.traces += r["stats"]["executions"]
    sched = 0
    for r in mixed[len(lj) :]:
        rep.add_violations(r["violations"])
        sched += r["stats"]["schedules"]
        rep.transitions += r["stats"]["points"]
        rep.traces += r["stats"]["schedules"]
        if r["stats"]["capped"]:
            rep.caps_hit.append("thrx schedule cap")
    rep.count("thread_schedules", sched, mandatory=True)
    rep.need("blocked_requests", "hour_restarts", "day_restarts", "failed_instructions", "accepted_after_restart", "forced_requests", "live_quiescent", "concurrent_outstanding")
    rep.bounds.update(thread_jobs=len(tj), preemption_bound=2, live_jobs=len(lj), configs=[c["name"] for c in cfgs])
    rep.rule = "E1: BFS (no dedup) over histories of ticks x {placements of 1/3 orders, failing placement, cancel that fails, cancel, replace, forced placement} with clock steps 1 s / 5 s / to the hour / +1 h / +24 h starting 7 s before an hour (and before midnight) for limits 3 / 0 / None and two clients; E2: every interleaving of 2-3 concurrently outstanding executions; E4: all schedules of 2-3 threads x 1-2 add_transaction calls with <= 2 preemptions at bytecode granularity (real lock replaced by a cooperative lock)"
    rep.assumptions = [
        "reference ledger A9: hourly counters restart at the first control validation in a new clock hour (also the very first validation)",
        "E4 replaces the instance's threading.Lock by a cooperative lock; if the attribute is missing the code runs unprotected and lost updates are reported",
    ]
    return rep.finish()


def replay(rep):
    c = rep["case"]
    if "history" in c:
        r = _run((c["history"], c["cfg"]))
        for d in r["violations"]:
            print(d["key"], d["detail"])
        return 1 if r["violations"] else 0
    if "calls" in c:
        r = _thr_job(([[tuple(x) for x in th] for th in c["calls"]], 2))
        for d in r["violations"]:
            print(d["key"], d["detail"])
        return 1 if r["violations"] else 0
    print("live case: re-run ./check C18")
    return 0
