"""Betdaq leg of the lifecycle oracles (C03 / C10 / C15): real BetdaqClient, BetdaqOrder,
BetdaqOrderPackage, BetdaqExecution, process_betdaq_current_orders behind the real Flumine.run loop;
the betdaq API client is a double, the single execution worker is a baton thread, polling results are
explorer events.  Same depth-first explorer as mc/livex.py."""
import threading
import traceback

from mc import core, livex, simx
from props import simlife as L

MID = "1.100000001"


class BetdaqDouble:
    """betting_client stand-in: .betting.place_orders / cancel_orders / update_orders, order table with
    sequence numbers for polling"""

    def __init__(self, world):
        self.world = world
        self.betting = self
        self.orders = {}  # order_id -> dict
        self.seq = 0
        self.next_id = 500
        self.calls = []
        self.polled_seq = 0
        self.username = "bdq"

    def _bump(self, o):
        self.seq += 1
        o["sequence_number"] = self.seq

    def _yield(self):
        task = getattr(self.world.local, "task", None)
        if task is not None:
            task.state = "at_post"
            task.pool.main.release()
            task.sem.acquire()
            if task.kill:
                raise livex._Killed()

    def place_orders(self, order_list, **kw):
        out = []
        fault = self.world.next_fault()
        for i, ins in enumerate(order_list):
            f = (fault or [])[i] if fault and i < len(fault) else "OK"
            if f == "OK":
                self.next_id += 1
                o = dict(order_id=self.next_id, customer_reference=ins["PunterReferenceNumber"], status="Unmatched", price=ins["Price"], size=ins["Stake"], matched_size=0.0, remaining_size=ins["Stake"], matched_price=0.0, polarity=ins["Polarity"], runner_id=ins["SelectionId"])
                self._bump(o)
                self.orders[o["order_id"]] = o
                out.append(dict(customer_reference=o["customer_reference"], order_id=o["order_id"], return_code=0, status="Unmatched", matched_size=0.0, remaining_size=ins["Stake"], matched_price=0.0))
            else:
                out.append(dict(customer_reference=ins["PunterReferenceNumber"], order_id=None, return_code=137))
        self.calls.append(("place", len(order_list)))
        self._yield()
        if fault == "RAISE":
            from betdaq import BetdaqError

            raise BetdaqError("injected")
        return out

    def cancel_orders(self, order_ids, **kw):
        out = []
        fault = self.world.next_fault()
        for oid in order_ids:
            o = self.orders.get(oid)
            if o is not None and o["status"] == "Unmatched":
                o["status"] = "Cancelled"
                o["remaining_size"] = 0.0
                self._bump(o)
                out.append(dict(order_id=oid, return_code=0))
            elif fault != "DROP":
                out.append(dict(order_id=oid, return_code=0))
        self.calls.append(("cancel", len(order_ids)))
        self._yield()
        if fault == "RAISE":
            from betdaq import BetdaqError

            raise BetdaqError("injected")
        if fault == "DROP":
            return out[:-1] if out else out
        return out

    def update_orders(self, order_list, **kw):
        out = []
        fault = self.world.next_fault()
        for ins in order_list:
            o = self.orders.get(ins["BetId"])
            if fault == "ERR" or o is None or o["status"] != "Unmatched":
                out.append(dict(order_id=ins["BetId"], return_code=22))
            else:
                o["price"] = ins["Price"]
                o["size"] = o["size"] + (ins.get("DeltaStake") or 0)
                o["remaining_size"] = o["remaining_size"] + (ins.get("DeltaStake") or 0)
                self._bump(o)
                out.append(dict(order_id=ins["BetId"], return_code=0))
        self.calls.append(("update", len(order_list)))
        self._yield()
        if fault == "RAISE":
            from betdaq import BetdaqError

            raise BetdaqError("injected")
        return out

    def fill(self, o, all_=True):
        amt = o["remaining_size"] if all_ else round(o["remaining_size"] / 2, 2)
        o["matched_size"] = round(o["matched_size"] + amt, 2)
        o["remaining_size"] = round(o["remaining_size"] - amt, 2)
        o["matched_price"] = o["price"]
        if o["remaining_size"] == 0:
            o["status"] = "Matched"
        self._bump(o)

    def diff(self):
        res = [dict(o) for o in self.orders.values() if o["sequence_number"] > self.polled_seq]
        self.polled_seq = self.seq
        return sorted(res, key=lambda d: d["sequence_number"])


class BetdaqWorld:
    def __init__(self, script, hooks=None, faults=None, budgets=None):
        self.script = list(script)
        self.hooks = hooks
        self.faults = list(faults or [])
        self.budgets = dict(fill=1, foreign=1, pollall=1)
        self.budgets.update(budgets or {})
        self.errors = []
        self.local = threading.local()
        self.clock_ms = simx.T0
        self.slept = []
        self.script_pos = 0
        self.trace = []
        self.status_cb = None
        self.trade_status_cb = None
        self.handler_exceptions = []
        self.fault_pos = 0
        self.markets = [MID]
        self.generation = 0

    def next_fault(self):
        f = self.faults[self.fault_pos] if self.fault_pos < len(self.faults) else None
        self.fault_pos += 1
        return f

    hooks_get = livex.LiveWorld.hooks_get
    safe = livex.LiveWorld.safe
    now_ms = livex.LiveWorld.now_ms
    set_clock = livex.LiveWorld.set_clock
    dispatch = livex.LiveWorld.dispatch
    _make_book = livex.LiveWorld._make_book
    _book_event = livex.LiveWorld._book_event

    def start(self):
        import datetime as _dt
        from flumine import BaseStrategy
        from flumine.clients import BetdaqClient
        from flumine.simulation.utils import NewDateTime

        simx.install_hooks()
        self._cfg_cm = core.owned_config(simulated=False)
        self._cfg_cm.__enter__()
        self._real_dt = _dt.datetime
        _dt.datetime = NewDateTime
        self.set_clock()
        simx._CUR = self
        LiveFlumine, _ = livex.live_classes()
        self.api = BetdaqDouble(self)
        self.exchange = self.api
        self.client = BetdaqClient(self.api)
        fw = self.framework = LiveFlumine(self.client)
        self.recorder = simx.Recorder(self)
        fw.add_logging_control(self.recorder)
        self.pool = livex.ControlledPool(self)
        fw.betdaq_execution._thread_pool = self.pool
        fw.betdaq_execution._get_http_session = lambda: None
        world = self

        class S(BaseStrategy):
            def __init__(s, **kw):
                super().__init__(**kw)
                s.known, s.trades_known, s.log, s.next_action, s._created = [], [], [], None, []
                s.world = world
                s.idx = 0

            def check_market_book(s, market, mb):
                return True

            def process_market_book(s, market, mb):
                act, s.next_action = s.next_action, None
                if act is not None:
                    s.do(act, market)

            def do(s, act, market):
                from flumine.order.trade import Trade
                from flumine.order.ordertype import BetdaqLimitOrder
                from flumine.exceptions import FlumineException

                w = s.world
                out, order = None, None
                pre, post = w.hooks_get("pre_action"), w.hooks_get("post_action")
                try:
                    if act[0] == "P":
                        t = act[1]
                        trade = Trade(market.market_id, t.get("sel", 1), 0, s)
                        s.trades_known.append(trade)
                        order = trade.create_betdaq_order(t.get("side", "BACK"), BetdaqLimitOrder(t.get("price", 2.0), t.get("size", 2.0), betdaq_runner_id=700 + t.get("sel", 1), runner_reset_count=0, withdrawal_sequence_number=0))
                        s.known.append(order)
                        s._created.append(order)
                        if pre:
                            w.safe(pre, w, s, market, act, order)
                        out = market.place_order(order)
                    else:
                        order = s.known[act[1]] if act[1] < len(s.known) else None
                        if order is None:
                            out = "noorder"
                        else:
                            if pre:
                                w.safe(pre, w, s, market, act, order)
                            if act[0] == "C":
                                out = market.cancel_order(order, act[2] if len(act) > 2 else None)
                            elif act[0] == "U":
                                out = market.update_order(order, size_delta=act[2], new_price=act[3] if len(act) > 3 else None)
                            elif act[0] == "R":
                                out = market.replace_order(order, act[2])
                except FlumineException as e:
                    out = "raise:" + type(e).__name__
                except Exception as e:
                    out = "raise!:" + type(e).__name__ + ":" + str(e)[:80]
                s.log.append((0, len(s.log), act, out))
                if post:
                    w.safe(post, w, s, market, act, order, out)

        st = S(market_filter={"marketIds": [MID]}, name="BDQ", max_order_exposure=None, max_selection_exposure=None, max_live_trade_count=3)
        fw.add_strategy(st)
        self.strategies = [st]
        self.market_stream_id = st.streams[0].stream_id
        self.order_stream_id = 998
        cb = self.hooks_get("status")
        self.status_cb = (lambda o, p, n, site: cb(self, o, p, n, site)) if cb else None
        cb2 = self.hooks_get("trade_status")
        self.trade_status_cb = (lambda t, p, n, site: cb2(self, t, p, n, site)) if cb2 else None
        self.books = {MID: self._make_book(MID)}
        self.dispatch(self._book_event(MID))
        return self

    def stop(self):
        import datetime as _dt

        try:
            self.pool.abandon()
        finally:
            _dt.datetime = self._real_dt
            simx._CUR = None
            self._cfg_cm.__exit__(None, None, None)
        if self.errors:
            raise core.HarnessError("hook error:\n" + self.errors[0])
        for t in self.pool.tasks:
            if t.error:
                self.handler_exceptions.append(t.error)

    def market(self, mid=None):
        return self.framework.markets.markets.get(MID)

    def enabled(self):
        ev = []
        if self.script_pos < len(self.script):
            ev.append(("S",))
        for i, t in enumerate(self.pool.tasks):
            if t.state == "new":
                ev.append(("X_send", i))
                break  # Betdaq execution is a single worker: tasks run in submission order
            if t.state == "at_post":
                ev.append(("X_apply", i))
                break
        if self.api.seq > self.api.polled_seq:
            ev.append(("POLL",))
        if self.budgets.get("pollall", 0) > 0 and self.api.orders and self.api.seq == self.api.polled_seq:
            ev.append(("POLLALL",))  # the polling thread restarts: its bootstrap call delivers every order again, unchanged
        if self.budgets.get("foreign", 0) > 0 and self.api.orders:
            ev.append(("FOREIGN",))  # an order of the same account that this instance does not know shows up (matched)
        if self.budgets["fill"] > 0:
            for o in sorted(self.api.orders.values(), key=lambda d: d["order_id"]):
                if o["status"] == "Unmatched":
                    ev.append(("FILL", o["order_id"], "all"))
                    ev.append(("FILL", o["order_id"], "half"))
        return ev

    def quiescent(self):
        return self.script_pos >= len(self.script) and not self.pool.outstanding() and self.api.seq == self.api.polled_seq

    def do(self, ev):
        from flumine.events import events
        from flumine.clients import ExchangeType

        self.trace.append(ev)
        self.clock_ms += 10
        self.set_clock()
        k = ev[0]
        if k == "S":
            act = self.script[self.script_pos]
            self.script_pos += 1
            self.strategies[0].next_action = act
            self.dispatch(self._book_event(MID))
        elif k in ("X_send", "X_apply"):
            t = self.pool.tasks[ev[1]]
            if t.state != ("new" if k == "X_send" else "at_post"):
                raise core.HarnessError("replay divergence")
            t.step()
        elif k == "POLL":
            d = self.api.diff()
            self.dispatch(events.CurrentOrdersEvent(d, exchange=ExchangeType.BETDAQ))
        elif k == "POLLALL":
            self.budgets["pollall"] -= 1
            d = sorted((dict(o) for o in self.api.orders.values()), key=lambda x: x["sequence_number"])
            self.dispatch(events.CurrentOrdersEvent(d, exchange=ExchangeType.BETDAQ))
        elif k == "FOREIGN":
            self.budgets["foreign"] -= 1
            fo = dict(order_id=9900 + self.budgets["foreign"], customer_reference="123456789012345678", status="Matched", price=5.0, size=50.0, matched_size=50.0, remaining_size=0.0, matched_price=5.0, polarity=1, runner_id=701)
            self.api._bump(fo)
            self.api.orders[fo["order_id"]] = fo
        elif k == "FILL":
            self.budgets["fill"] -= 1
            self.api.fill(self.api.orders[ev[1]], ev[2] == "all")
        cb = self.hooks_get("after_event")
        if cb:
            self.safe(cb, self, ev)

    def canon(self):
        m = self.market()
        rows = []
        if m is not None:
            for o in m.blotter:
                rows.append((L.sname(o.status), o.complete, o.bet_id, tuple(sorted((k, repr(v)) for k, v in o.update_data.items())), tuple((o.responses.current_order or {}).get(k) for k in ("status", "matched_size", "remaining_size", "price", "sequence_number", "order_id")) if isinstance(o.responses.current_order, dict) else None, L.sname(o.trade.status), o.order_type.price))
            try:
                live = tuple(id(x) in {id(o) for o in m.blotter._live_orders} for x in m.blotter)
            except AttributeError:
                return None
        else:
            live = ()
        tasks = tuple((t.state, t.package.package_type.name) for t in self.pool.tasks if t.state != "done")
        ex = tuple(sorted((o["order_id"], o["status"], o["matched_size"], o["remaining_size"], o["price"], o["sequence_number"] > self.api.polled_seq) for o in self.api.orders.values()))
        return (tuple(rows), live, tasks, ex, self.script_pos, tuple(sorted(self.budgets.items())), self.fault_pos)


class BetdaqLife(L.Life):
    """Life oracles with the Betdaq acceptance rule"""

    def __init__(self, enabled, meta):
        super().__init__(enabled, [], extra={"cfg": None})
        self.meta = meta
        self.world = None

    def v(self, clause, key, detail, once=None):
        if once is not None:
            if (clause, once) in self.reported:
                return
            self.reported.add((clause, once))
        w = self.world
        path = [list(e) for e in (w.trace if w else [])]
        self.viol.append(core.v(clause, ("betdaq",) + tuple(key), detail, dict(betdaq=self.meta, path=path), size=len(path) * 100))

    def _can(self, o, act):
        if L.sname(o.status) != "EXECUTABLE" or o.bet_id is None:
            return False, "status/bet-id"
        if act[0] == "C":
            if len(act) > 2 and act[2]:
                return False, "args"  # Betdaq has no partial cancel
            return True, ""
        if act[0] == "U":
            return True, ""
        if act[0] == "R":
            return False, "type"  # replace is not available on Betdaq
        return True, ""

    def pre_action(self, w, st, market, act, o):
        self.world = w
        return super().pre_action(w, st, market, act, o)

    def post_action(self, w, st, market, act, o, out):
        self.world = w
        if act[0] == "R" and isinstance(out, str) and out.startswith("raise:"):
            # OrderError from the transaction: judged like a rejection by the order
            pass
        return super().post_action(w, st, market, act, o, out)

    def orders(self, w, st, market, orders):
        self.world = w

    def status(self, w, o, prev, new, site):
        self.world = w
        return super().status(w, o, prev, new, site)

    def trade_status(self, w, t, prev, new, site):
        self.world = w
        return super().trade_status(w, t, prev, new, site)

    def after_event(self, w, ev):
        self.world = w
        m = w.market()
        if m is None:
            return
        if "C10" in self.en:
            self._c10(w, m)
            self._c10_ground(w, m)
        if "C15" in self.en:
            self._c15(w, m)
        if "C16" in self.en:
            self._c16(w, m)
        if "C03" in self.en:
            for o in m.blotter:
                if id(o) in self.sent_complete:
                    self.c("clause:C03.c")
                    if not o.complete:
                        self.v("C03.c", ("handler", "complete-flag", L.sname(o.status)), "order reported complete is live again (%s)" % L.sname(o.status), once=(id(o), "live"))
                elif o.complete and L.sname(o.status) == "EXECUTION_COMPLETE":
                    self.sent_complete[id(o)] = o.size_matched
                    # "reported complete" is a report about THIS order: while the exchange holds it unmatched with
                    # size remaining and nothing of ours is in flight for it, no report can have completed it
                    x = w.api.orders.get(o.bet_id) if o.bet_id is not None else None
                    busy = any(t.state != "done" and t.package is not None and any(y is o for y in t.package._orders) for t in w.pool.tasks)
                    if x is not None and x["status"] == "Unmatched" and x["remaining_size"] > 0 and not busy:
                        self.v("C03.c", ("handler", "complete-flag", "exchange-unmatched"), "order reported complete while the exchange holds it unmatched with %s remaining (report of another order applied to it?)" % x["remaining_size"], once=(id(o), "exch"))


def _c16(self, w, m):
    """exposure leg: whenever nothing is in flight and every exchange-side change has been polled, the exposure
    reported for each runner equals the brute-force worst case over the exchange's own records of the bets"""
    from fractions import Fraction as F
    from mc import refs

    if w.pool.outstanding() or w.api.seq != w.api.polled_seq:
        return
    by_lookup = {}
    for o in m.blotter:
        st = L.sname(o.status)
        if o.bet_id is None:
            if st not in ("VIOLATION", "EXECUTION_COMPLETE"):
                return  # a placement whose fate is unknown (raised): not a stable point
            continue
        x = w.api.orders.get(o.bet_id)
        if x is None or st in ("PENDING", "CANCELLING", "UPDATING", "REPLACING"):
            return
        frags = [(x["matched_price"], x["matched_size"])] if x["matched_size"] else []
        by_lookup.setdefault(o.lookup, []).append(refs.RefOrder(o.side, "LIMIT", False, "EXECUTABLE" if x["status"] == "Unmatched" else "EXECUTION_COMPLETE", x["status"] != "Unmatched", frags, x["remaining_size"], x["price"], None))
    for lookup, rfs in by_lookup.items():
        self.c("clause:C16.a")
        self.c("exposure_points")
        strategy = w.strategies[0]
        ge = m.blotter.get_exposures(strategy, lookup)
        ew, el = refs.ref_selection(rfs)
        for nm, g, e in (("win", ge["worst_possible_profit_on_win"], ew), ("lose", ge["worst_possible_profit_on_lose"], el)):
            if abs(F(str(g)) - e) > F(3, 100):
                self.v("C16.a", ("get_exposures", "under" if F(str(g)) > e else "over"), "runner %s: profit_if_%s reported %s, worst case over the exchange's records %s (local price/matched/remaining %s)" % (lookup[1:], nm, g, float(e), [(o.order_type.price, o.size_matched, o.size_remaining) for o in m.blotter if o.lookup == lookup]), once=(lookup, nm))


BetdaqLife._c16 = _c16


def _c10_ground(self, w, m):
    """C10.d against the exchange's own records: once nothing is in flight and every exchange-side change has been
    polled, a runner all of whose bets are finished at the exchange (matched / cancelled) no longer charges a live
    trade - whatever the local orders believe"""
    if w.pool.outstanding() or w.api.seq != w.api.polled_seq:
        return
    by_lookup = {}
    for o in m.blotter:
        if o.bet_id is None:
            if not o.complete:
                return
            continue
        x = w.api.orders.get(o.bet_id)
        if x is None:
            return
        by_lookup.setdefault(o.lookup, []).append((o, x))
    for lookup, pairs in by_lookup.items():
        self.c("clause:C10.d")
        self.c("ground_truth_points")
        if all(x["status"] != "Unmatched" for _, x in pairs):
            rc = w.strategies[0].get_runner_context(*lookup)
            if rc.live_trades:
                self.v("C10.d", ("lock-out", "exchange-complete"), "every bet on runner %s is finished at the exchange (%s) and has been polled, but %d trade(s) are still charged as live (local orders: %s)" % (lookup[1:], [x["status"] for _, x in pairs], len(rc.live_trades), [L.sname(o.status) for o, _ in pairs]), once=(lookup, "ground"))


BetdaqLife._c10_ground = _c10_ground

A = dict(sel=1, side="BACK", price=2.0, size=2.0)
SCRIPTS = {
    "place-cancel": [["P", A], ["C", 0, None]],
    "place-update-cancel": [["P", A], ["U", 0, 1.0, 2.2], ["C", 0, None]],
    "place-update-update": [["P", A], ["U", 0, 1.0, 2.2], ["U", 0, 0.0, 2.4]],
    "place-cancelpart-replace": [["P", A], ["C", 0, 1.0], ["R", 0, 2.2]],
    "place2-cancel": [["P", A], ["P", dict(A, sel=2, side="LAY")], ["C", 0, None], ["C", 1, None]],
    # size-only updates (the price stays): the second is asked for while the first may still be in flight
    "place-sizeupdate-sizeupdate": [["P", A], ["U", 0, 1.0], ["U", 0, 1.0]],
    # a LAY order: its exposure depends on the limit price the local order believes it has
    "lay-update-cancel": [["P", dict(A, side="LAY", price=3.0, size=4.0)], ["U", 0, 0.0, 5.0], ["C", 0, None]],
}


def _job(args):
    name, faults, enabled = args
    meta = dict(script=name, faults=faults)
    viol, counts, holder = [], {}, {}

    def mk():
        h = BetdaqLife(set(enabled), meta)
        holder["h"] = h
        w = BetdaqWorld(SCRIPTS[name], hooks=h, faults=faults)
        h.world = w
        w.start()
        return w

    def chk(w, path):
        h = holder["h"]
        viol.extend(h.viol)
        core.merge_dict_counts(counts, h.counts)
        if w.handler_exceptions:
            viol.append(core.v(sorted(enabled)[0] + ".a", ("betdaq", "handler", "exception"), "handler raised: %s" % w.handler_exceptions[0][-300:], dict(betdaq=meta, path=[list(e) for e in w.trace])))

    st = livex.explore(mk, chk, max_depth=30, cap=30000)
    best = {}
    for d in viol:
        k = tuple(d["key"])
        if k not in best or len(d["case"]["path"]) < len(best[k]["case"]["path"]):
            best[k] = d
    return dict(violations=list(best.values()), counts=counts, stats=st, meta=meta)


def explore_betdaq(rep, enabled, tier):
    jobs = [(name, None, sorted(enabled)) for name in SCRIPTS]
    for name in ("place-cancel", "place-update-cancel"):
        for faults in (["RAISE"], [None, "RAISE"], [["ERR"]], [None, "DROP"], [None, "ERR"]):
            jobs.append((name, faults, sorted(enabled)))
    jobs.append(("lay-update-cancel", [None, "ERR"], sorted(enabled)))
    n = 0
    for r in core.pmap(_job, jobs, chunk=1):
        rep.add_violations(r["violations"])
        cc = dict(r["counts"])
        rep.merge_counts({("betdaq_" + k if not k.startswith("clause:") else k): v for k, v in cc.items()})
        st = r["stats"]
        rep.states += st["states"]
        rep.transitions += st["transitions"]
        rep.traces += st["executions"]
        n += st["executions"]
        rep.per_level.append(dict(mode="betdaq", job=r["meta"], states=st["states"], executions=st["executions"]))
    rep.count("betdaq_executions", n, mandatory=True)
    rep.assumptions.append("Betdaq part: API double with sequence-numbered order table, single execution worker, polling as explorer event; acceptance rule: no partial cancel, no replace")
    return n


def replay_betdaq(case, enabled):
    m = case["betdaq"]
    h = BetdaqLife(set(enabled), m)
    w = BetdaqWorld(SCRIPTS[m["script"]], hooks=h, faults=m["faults"])
    h.world = w
    w.start()
    try:
        for ev in case["path"]:
            w.do(tuple(ev))
            print(ev, [(L.sname(o.status), o.bet_id) for o in w.market().blotter])
    finally:
        w.stop()
    for d in h.viol:
        print(d["key"], d["detail"])
    return 1 if h.viol else 0
