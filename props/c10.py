"""C10 Trade and runner accounting follows the real state of the orders — E1 simx part."""
from mc import core
from props import simlife as L, c04, livelife

CLAUSES = {
    "C10.a": "live_trades = placed trades with an order not complete; trade_count = distinct trades placed",
    "C10.b": "a trade is COMPLETE exactly when all its orders are complete; never left PENDING; never completes while an order is live",
    "C10.c": "accepted placements respect max_trade_count, max_live_trade_count and both cool-downs",
    "C10.d": "no lock-out of a runner whose orders have all completed",
    "C10.e": "trade status log follows LIVE -> (PENDING -> LIVE)* -> COMPLETE",
}
ENABLED = {"C10"}


def alphabet_for(tkw, hc=None):
    def alphabet(dt, rich):
        A = [L.tick(500), L.tick(2000)]
        for e in ["T21", "T22", "SUS", "OPN", "RM1", "CL"] + (["IP", "T2x"] if rich else []):
            A.append(L.tick(500, e))
        def p(name, **kw):
            if hc is not None and L.TEMPLATES[name].get("sel", 1) == 1:
                kw.setdefault("hc", hc)  # the runner is a handicap line of selection 1
            return L.P(name, trade_kw=dict(tkw), **kw)
        for name in ["XB", "PBn", "FOK", "PBv"] + (["XBp", "PBm", "P2"] if rich else []):
            A.append(L.tick(500, "Q", [p(name)]))
        A.append(L.tick(500, "Q", [p("PBn", trade=0)]))  # second order in the first trade
        A.append(L.tick(500, "Q", [p("XB", trade=0)]))
        A.append(L.tick(500, "Q", [p("PBn", with_trade=True)]))  # placed inside `with trade:`
        # a further order in the first trade even if it has completed meanwhile (limits must still hold)
        A.append(L.tick(500, "Q", [p("PBn", trade=0, live_only=False)]))
        A.append(L.tick(2000, "Q", [p("XB", trade=0, live_only=False)]))
        A.append(L.tick(500, "Q", [p("XB"), p("PBn")]))  # two placements in one callback
        A.append(L.tick(2000, "Q", [p("PBn")]))  # a passive order, then two seconds pass (cool-downs measured from later placements)
        if rich:
            A.append(L.tick(500, "Q", [p("XB", force=True)]))
            A.append(L.tick(2000, "Q", [p("XB")]))
        for i in (0, 1):
            A.append(L.tick(500, "Q", [["C", i, None]]))
            A.append(L.tick(500, "Q", [["R", i, 2.3]]))
        A.append(L.tick(500, "Q", [["C", 0, 2.0]]))
        A.append(L.tick(500, "T21", [p("XB")]))
        return A
    return alphabet


# (name, strategy kw, trade kw)
CONFIGS = [
    ("default", dict(max_live_trade_count=1), dict()),
    ("t1", dict(max_trade_count=1, max_live_trade_count=1), dict()),
    ("t2-reset", dict(max_trade_count=2, max_live_trade_count=1), dict(reset_seconds=1.5)),
    ("multi-placereset", dict(max_live_trade_count=2, multi_order_trades=True), dict(place_reset_seconds=1.5)),
    ("multi-both", dict(max_trade_count=2, max_live_trade_count=2, multi_order_trades=True), dict(reset_seconds=1.5, place_reset_seconds=1.5)),
    ("live2", dict(max_live_trade_count=2), dict(reset_seconds=1.5)),
    ("handicap-line", dict(max_live_trade_count=1), dict()),
    # a limit of exactly 0 is a limit: nothing may be opened on the runner
    ("live0", dict(max_live_trade_count=0), dict()),
    ("trades0", dict(max_trade_count=0, max_live_trade_count=1), dict()),
]


def _run(args):
    hist, cfg = args
    return L.run_history(hist, ENABLED, cfg)


def run(tier):
    rep = core.Report("C10", tier, "E1 simx")
    for name, skw, tkw in CONFIGS:
        cfg = dict(name=name, dt=500, strategy_kw=skw, rich=(tier == "thorough"))
        hc = None
        if name == "handicap-line":
            hc = -1.5
            cfg["sels"] = ((1, 0), (2, 0), (1, -1.5))
        c04.explore(rep, ENABLED, alphabet_for(tkw, hc), tier, [cfg], depth_q=3, depth_t=4, dev_k_q=2, dev_k_t=3, horizon=6, run=_run)
    rep.need("trade_completions", "refused_by_accounting", "runner_all_complete", "placed")
    rep.bounds["configs"] = [c[0] for c in CONFIGS]
    rep.rule = "per configuration of (max_trade_count, max_live_trade_count, multi_order_trades, reset/place_reset seconds): BFS with dedup + deviation-bounded histories of placements (new trade / same trade / inside `with trade:` / replacement), fills, cancels, lapses, voids, failed placements; accounting recounted from the blotter's orders at the end of every update"
    rep.assumptions = [
        "invariants are evaluated at the end of an update (inside `with order.trade:` the transient PENDING is legal)",
        "cool-downs are measured from the simulated clock at the placement decision and at Trade completion",
        "forced placements skip the controls and are not judged by clause c",
    ]
    livelife.explore_live(rep, ENABLED, tier)
    from props import betdaqlife

    betdaqlife.explore_betdaq(rep, ENABLED, tier)  # the same oracles over the Betdaq execution / polling path
    rep.engine = "E1 simx + E2 livex"
    return rep.finish()


def replay(rep):
    c = rep["case"]
    if "betdaq" in c:
        from props import betdaqlife

        return betdaqlife.replay_betdaq(c, ENABLED)
    if "path" in c:
        return livelife.replay_live(c, ENABLED)
    r = L.run_history(c["history"], ENABLED, c.get("cfg"))
    for d in r["violations"]:
        print(d["key"], d["detail"])
    return 1 if r["violations"] else 0
